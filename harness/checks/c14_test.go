package checks

// C14 — array subscripts select by position, with last, ranges and lists.

import (
	"context"
	"fmt"
	"math"
	"strings"
	"testing"

	"github.com/theory/sqljson/path"
	"github.com/theory/sqljson/path/exec"
	"pgregory.net/rapid"
)

// Bound of a subscript, in a form the oracle can evaluate by itself.
type Bound struct {
	Kind string  `json:"kind"` // int | num | last | lastminus | str | big | multi | inner_last | inner_first | null | bool
	I    int64   `json:"i,omitempty"`
	F    float64 `json:"f,omitempty"`
}

func (b Bound) text() string {
	switch b.Kind {
	case "int":
		return fmt.Sprint(b.I)
	case "num":
		return FormatNum(b.F)
	case "last":
		return "last"
	case "lastminus":
		return fmt.Sprintf("last - %d", b.I)
	case "lastplus":
		return fmt.Sprintf("last + %d", b.I)
	case "str":
		return `"a"`
	case "innersellast":
		// elements of the nested array $[0] that equal last: last is written inside the outer brackets only
		// (the nested subscript is closed before the filter), so it is the outer array's last index
		return "$[0][0 to 1] ? (@ == last)"
	case "litabs":
		return "(-1).abs()" // a literal followed by a method: the method's result is the subscript
	case "littype":
		return "(2).type()"
	case "litfloor":
		return "(1.9).floor()"
	case "max32":
		return "2147483647"
	case "min32":
		return "-2147483648"
	case "big":
		return "2147483648"
	case "negbig":
		return "-2147483649"
	case "multi":
		return "$two[*]"
	case "none":
		return "$two[*] ? (@ > 99)"
	case "var":
		// a number that reaches the subscript as a document-style value (float64 or
		// json.Number, depending on the decoding), not as a path literal
		return "$f" + strings.NewReplacer("-", "m", ".", "_").Replace(FormatNum(b.F))
	case "guardedfail0":
		// index 0, guarded by a predicate whose operand contains a nested subscript that fails under suppression
		return `0 ? (($two["x"] == 1) is unknown)`
	case "arr1":
		// a one-element array holding a number is an array, not a single number (the
		// subscript expression is not unwrapped)
		return "$one"
	case "arr2":
		return "$two"
	case "nested1":
		return "$nest[0]"
	case "guarded0":
		// index 0, guarded by an exists() whose operand has its own subscript and a further step
		return "0 ? (exists($two[0].type()))"
	case "inner_last":
		return "$[0][last]"
	case "inner_first":
		return "$[0][0]"
	case "null":
		return "null"
	case "bool":
		return "true"
	}
	return "?"
}

type SubSpec struct {
	From Bound  `json:"from"`
	To   *Bound `json:"to,omitempty"`
}

// SubscriptCase: a subscripted value and a subscript list.
type SubscriptCase struct {
	Strict    bool      `json:"strict,omitempty"`
	Doc       string    `json:"doc"`
	Subs      []SubSpec `json:"subs"`
	UseNumber bool      `json:"use_number,omitempty"`
}

func (c SubscriptCase) pathText() string {
	var parts []string
	for _, s := range c.Subs {
		t := s.From.text()
		if s.To != nil {
			t += " to " + s.To.text()
		}
		parts = append(parts, t)
	}
	p := "$[" + strings.Join(parts, ", ") + "]"
	if c.Strict {
		p = "strict " + p
	}
	return p
}

func init() {
	quirkProbes["subscript_drops_null"] = func() bool {
		p, err := path.Parse("$[0]")
		if err != nil {
			return false
		}
		o := RunQuery(context.Background(), p, []any{nil, float64(1)})
		return o.Class == EOK && len(o.Items) == 0
	}
}

type subFacts struct {
	nontrivial bool
	d19        bool
	class      string
}

var c14Ev *Ev

var checkSubscript = register("c14.subscript", func(c SubscriptCase) *Violation {
	v, _ := checkSubscriptFacts(c)
	return v
})

// evalBound is the oracle's reading of the statement: a subscript must be a
// single number within int32, truncated toward zero; last = n-1.
func evalBound(b Bound, arr []any, strict bool) (int64, bool) {
	n := int64(len(arr))
	trunc := func(f float64) (int64, bool) {
		t := math.Trunc(f)
		if t > math.MaxInt32 || t < math.MinInt32 {
			return 0, false
		}
		return int64(t), true
	}
	switch b.Kind {
	case "int":
		return b.I, b.I <= math.MaxInt32 && b.I >= math.MinInt32
	case "num":
		return trunc(b.F)
	case "last":
		return n - 1, true
	case "lastminus":
		return n - 1 - b.I, true
	case "lastplus":
		return n - 1 + b.I, true
	case "guarded0", "guardedfail0":
		return 0, true
	case "innersellast":
		if len(arr) == 0 {
			return 0, false
		}
		inner, isArr := arr[0].([]any)
		if !isArr {
			if strict {
				return 0, false
			}
			inner = []any{arr[0]}
		}
		if strict && len(inner) < 2 {
			return 0, false // out of bounds
		}
		var hit []int64
		for i := 0; i < len(inner) && i < 2; i++ {
			if inner[i] == nil {
				continue // D19: a selected null is dropped anyway, and null == last is false
			}
			if r, ok := numRat(inner[i]); ok && r.IsInt() && r.Num().IsInt64() && r.Num().Int64() == int64(len(arr)-1) {
				hit = append(hit, r.Num().Int64())
			}
		}
		if len(hit) != 1 {
			return 0, false
		}
		return hit[0], true
	case "litabs", "litfloor":
		return 1, true
	case "max32":
		return math.MaxInt32, true
	case "min32":
		return math.MinInt32, true
	case "var":
		return trunc(b.F)
	case "inner_last", "inner_first":
		// $[0] must be (lax: or behave as) an array whose selected element is one number
		if len(arr) == 0 {
			return 0, false
		}
		inner, ok := arr[0].([]any)
		if !ok {
			inner = []any{arr[0]}
		}
		if len(inner) == 0 {
			return 0, false
		}
		e := inner[0]
		if b.Kind == "inner_last" {
			e = inner[len(inner)-1]
		}
		r, ok := numRat(e)
		if !ok {
			return 0, false
		}
		f, _ := r.Float64()
		return trunc(f)
	}
	return 0, false // str, big, negbig, multi, none, null, bool: not a single number within int32
}

func checkSubscriptFacts(c SubscriptCase) (*Violation, subFacts) {
	var f subFacts
	text := c.pathText()
	p, err, pan := ParseSafe(text)
	if pan != "" || err != nil {
		return violf("harness: subscript path %q does not parse: %v %s", text, err, pan), f
	}
	doc, derr := Decode(c.Doc, c.UseNumber)
	if derr != nil {
		return nil, f
	}
	ev := c14Ev
	if ev == nil {
		ev = &Ev{Prop: "C14"}
	}
	vars := map[string]string{"two": "[1,2]", "one": "[1]", "nest": "[[0],1]"}
	for _, f := range varBoundValues {
		vars["f"+strings.NewReplacer("-", "m", ".", "_").Replace(FormatNum(f))] = FormatNum(f)
	}
	o := Opts{HasVars: true, Vars: vars, UseNumber: c.UseNumber}
	got := RunQuery(context.Background(), p, doc, o.Options(o.VarsValue())...)
	if got.Panic != "" {
		return violf("%q on %s panicked: %s", text, c.Doc, got.Panic), f
	}
	f.class = got.Class
	// oracle
	arr, isArr := doc.([]any)
	wantErr := ""
	var want []any
	if !isArr {
		if c.Strict {
			wantErr = "strict mode: the subscripted value is not an array"
		} else {
			arr = []any{doc}
		}
	}
	if c.Strict {
		// inner_* bounds index $[0]: in strict mode $[0] must be in range and an array
		for _, s := range c.Subs {
			for _, b := range []*Bound{&s.From, s.To} {
				if b != nil && (b.Kind == "inner_last" || b.Kind == "inner_first") && wantErr == "" {
					if len(arr) == 0 {
						wantErr = "strict: $[0] out of bounds inside a bound"
					} else if in, ok := arr[0].([]any); !ok {
						wantErr = "strict: $[0] is not an array inside a bound"
					} else if len(in) == 0 {
						wantErr = "strict: inner subscript out of bounds"
					}
				}
			}
		}
	}
	n := int64(len(arr))
	if wantErr == "" {
	loop:
		for _, s := range c.Subs {
			from, ok := evalBound(s.From, arr, c.Strict)
			if !ok {
				wantErr = "bound " + s.From.text() + " is not a single number within int32"
				break
			}
			to := from
			if s.To != nil {
				to, ok = evalBound(*s.To, arr, c.Strict)
				if !ok {
					wantErr = "bound " + s.To.text() + " is not a single number within int32"
					break
				}
			}
			if from != to || from < 0 || from >= n {
				f.nontrivial = true
			}
			if c.Strict {
				if from < 0 || from > to || to >= n {
					wantErr = fmt.Sprintf("strict: subscript %d to %d out of bounds for length %d", from, to, n)
					break loop
				}
			} else {
				from = max(from, 0)
				to = min(to, n-1)
			}
			for i := from; i <= to; i++ {
				want = append(want, arr[i])
			}
		}
	}
	at := fmt.Sprintf("%q on %s", text, c.Doc)
	if wantErr != "" {
		f.nontrivial = true
		if got.Class != ESupp {
			return violf("%s: a suppressible error is required (%s) but Query returned %s", at, wantErr, got), f
		}
		return nil, f
	}
	if got.Class != EOK {
		return violf("%s: want %v but Query failed: %v", at, RenderSeq(want, false), got.Err), f
	}
	w, g := RenderSeq(want, false), RenderSeq(got.Items, false)
	if sameSeq(w, g) {
		if len(want) > 0 && int64(len(want)) < n {
			f.nontrivial = true
		}
		return nil, f
	}
	// open finding D19: selected JSON null elements are dropped
	hasNull := false
	var noNull []string
	for _, x := range want {
		if x == nil {
			hasNull = true
		} else {
			noNull = append(noNull, Render(x, false))
		}
	}
	if hasNull && sameSeq(noNull, g) && ev.quirk("subscript_drops_null") {
		f.d19, f.nontrivial = true, true
		return nil, f
	}
	return violf("%s: slice arithmetic gives %v but Query returned %v", at, w, g), f
}

var varBoundValues = []float64{-0.5, -0.9, 0.5, 1.9, 2.5, -1.5, 1, 0}

func subscriptBounds(full bool) []Bound {
	var bs []Bound
	for i := int64(-2); i <= 6; i++ {
		bs = append(bs, Bound{Kind: "int", I: i})
	}
	bs = append(bs, Bound{Kind: "num", F: -0.5}, Bound{Kind: "num", F: 0.5}, Bound{Kind: "num", F: 1.9}, Bound{Kind: "num", F: -1.5},
		Bound{Kind: "last"}, Bound{Kind: "lastminus", I: 1}, Bound{Kind: "lastminus", I: 2}, Bound{Kind: "lastplus", I: 1})
	if full {
		bs = append(bs, Bound{Kind: "str"}, Bound{Kind: "big"}, Bound{Kind: "negbig"}, Bound{Kind: "multi"}, Bound{Kind: "none"}, Bound{Kind: "null"}, Bound{Kind: "bool"},
			Bound{Kind: "num", F: 2147483647.5}, Bound{Kind: "num", F: 2147483648.5}, Bound{Kind: "num", F: 1e300}, Bound{Kind: "inner_last"}, Bound{Kind: "inner_first"}, Bound{Kind: "guarded0"}, Bound{Kind: "arr1"}, Bound{Kind: "arr2"}, Bound{Kind: "nested1"}, Bound{Kind: "guardedfail0"}, Bound{Kind: "max32"}, Bound{Kind: "min32"}, Bound{Kind: "innersellast"}, Bound{Kind: "litabs"}, Bound{Kind: "littype"}, Bound{Kind: "litfloor"})
		bs = append(bs, Bound{Kind: "var", F: -0.5}, Bound{Kind: "var", F: 1.9})
	}
	return bs
}

func arraysOver(alpha []string, maxLen int) []string {
	out := []string{"[]"}
	cur := [][]string{{}}
	for l := 1; l <= maxLen; l++ {
		var next [][]string
		for _, a := range cur {
			for _, e := range alpha {
				b := append(append([]string{}, a...), e)
				next = append(next, b)
				out = append(out, "["+strings.Join(b, ",")+"]")
			}
		}
		cur = next
	}
	return out
}

// WrapChainCase: a subscript list applied to a non-array (lax mode: a one-element array made for the occasion),
// followed by steps that wrap values of their own. Every subscript of the list selects from the same wrapped
// value, whatever the steps behind it do.
type WrapChainCase struct {
	Path string `json:"path"`
	Doc  string `json:"doc"`
}

var checkWrapChain = register("c14.wrapchain", func(c WrapChainCase) *Violation {
	p, err, pan := ParseSafe(c.Path)
	if err != nil || pan != "" {
		return violf("harness: %q does not parse: %v%s", c.Path, err, pan)
	}
	doc, derr := Decode(c.Doc, false)
	if derr != nil {
		return nil
	}
	vars := map[string]any{"v": doc}
	d19 := false
	if c14Ev != nil {
		d19 = c14Ev.quirk("subscript_drops_null")
	}
	mr := RunModel(PathFromAST(p.AST), doc, Opts{}, vars, d19)
	if mr.Err != nil && mr.Err.dontCare {
		return nil
	}
	got := RunQuery(context.Background(), p, doc, exec.WithVars(exec.Vars(vars)))
	if got.Panic != "" {
		return violf("Query(%q) on %s panicked: %s", c.Path, c.Doc, got.Panic)
	}
	wantClass := EOK
	if mr.Err != nil {
		wantClass = ESupp
		if mr.Err.hard {
			wantClass = EHard
		}
	}
	if got.Class != wantClass {
		return violf("Query(%q) on %s: the subscript rules give class %s and %v, Query returned %s", c.Path, c.Doc, wantClass, mRenderSeq(mr.Items), got)
	}
	if wantClass == EOK {
		if w, g := mRenderSeq(mr.Items), RenderSeq(got.Items, true); !sameSeq(w, g) {
			return violf("Query(%q) on %s: each subscript of the list selects from the same value (a non-array is a one-element array in lax mode): want %v, Query returned %v", c.Path, c.Doc, w, g)
		}
	}
	return nil
})

func TestC14(t *testing.T) {
	ev := newEv(t, "C14")
	c14Ev = ev
	ev.replayTier(t)
	record := func(class string, c SubscriptCase, f subFacts) {
		ev.Eval(c.pathText()+"\x00"+c.Doc, f.nontrivial)
		if f.d19 {
			ev.KFCase("D19")
		}
		ev.Label("query:" + f.class)
		ev.Sample(class+":"+f.class, map[string]string{"path": c.pathText(), "doc": c.Doc})
	}
	alpha := []string{`1`, `"s"`, `null`, `[]`, `[7,8]`, `{}`}
	docs := append(arraysOver(alpha, 3), `1`, `"s"`, `null`, `{}`, `{"a":[1]}`, `[[0,1],5,6]`, `[[2],5,6,7]`, `[[1,0],[3]]`, `[[],1]`, `[0,1,2]`, `[2,1,0]`, `[[3,1],20,30,40]`, `[[1,3],20,30,40]`, `[[2,2],5,6]`, `[[1],7]`, `[[3,3],20,30,40]`, `[3,20,30,40]`)
	docs = append(docs, arraysOver([]string{`1`, `null`, `[7,8]`}, 4)[40:]...) // the length-4 arrays over a smaller alphabet
	t.Run("exhaustive", func(t *testing.T) {
		b := ev.enum(t)
		full := subscriptBounds(true)
		small := []Bound{{Kind: "int", I: 0}, {Kind: "int", I: 1}, {Kind: "int", I: 5}, {Kind: "last"}, {Kind: "int", I: -1}, {Kind: "str"}, {Kind: "guarded0"}}
		extra := []Bound{{Kind: "arr1"}, {Kind: "guardedfail0"}, {Kind: "var", F: -0.5}}
		if thorough() {
			small, extra = append(small, extra...), nil
		}
		var lists [][]SubSpec
		for _, f := range varBoundValues {
			lists = append(lists, []SubSpec{{From: Bound{Kind: "var", F: f}}})
		}
		for _, x := range full {
			lists = append(lists, []SubSpec{{From: x}})
			for _, y := range full {
				y := y
				lists = append(lists, []SubSpec{{From: x, To: &y}})
			}
		}
		var entries []SubSpec
		for _, x := range small {
			entries = append(entries, SubSpec{From: x})
			for _, y := range small {
				y := y
				entries = append(entries, SubSpec{From: x, To: &y})
			}
		}
		for _, e1 := range entries {
			for _, e2 := range entries {
				lists = append(lists, []SubSpec{e1, e2})
			}
		}
		// quick tier: the three remaining bound kinds next to every single entry, on either side
		for _, x := range extra {
			for _, y := range small {
				y := y
				lists = append(lists, []SubSpec{{From: x}, {From: y}}, []SubSpec{{From: y}, {From: x}}, []SubSpec{{From: y, To: &y}, {From: x}}, []SubSpec{{From: x}, {From: y, To: &y}})
			}
		}
		i := 0
		for _, d := range docs {
			for _, l := range lists {
				for _, strict := range []bool{false, true} {
					i++
					if !mine(i) {
						continue
					}
					c := SubscriptCase{Strict: strict, Doc: d, Subs: l}
					v, f := checkSubscriptFacts(c)
					record("exhaustive", c, f)
					if !b.Check("c14.subscript", c, v) {
						return
					}
				}
			}
		}
		ev.Exhaustive("arrays_len_0_to_4_by_subscript_lists_by_mode", int64(i))
	})
	t.Run("lists_on_non_arrays_followed_by_wrapping_steps", func(t *testing.T) {
		b := ev.enum(t)
		starts := []string{"$", "$.o", "$v", "$.o.b", "$[0]"}
		lists := []string{"[0, 0]", "[0, last]", "[last, 0, 0]", "[0 to last, 0]", "[$.i[0]]", "[0, $.i[0]]", "[$.i[0], $.i[0]]", "[0 to $.i[last]]", "[0, 0 ? (@[0] == 0)]", "[0]", "[last - $.i[0], 0]"}
		tails := []string{"", ".a[0]", "[0]", "[0][0]", ".a[0, 0]", " ? (@[0] == @[last])", ".a[last]", "[0].a", ".b[0].c[0]", ".a[0 to last]", " ? (@.a[0] > 1).a[0]", ".b[0, 0].c", ".*[0]", ".a.size()", "[0, 0]", " ? (exists(@.b[0].c[0]))"}
		docs := []string{`{"a":5,"i":0,"b":{"c":7},"o":{"a":6,"b":{"c":8}}}`, `5`, `{"a":[5,6],"i":[0,0],"b":[{"c":[7]}],"o":{"a":[1,2],"i":0}}`, `[{"a":5,"i":0,"b":{"c":7}}]`, `{"a":null,"i":0,"o":null}`}
		i := 0
		for _, st := range starts {
			for _, l := range lists {
				for _, tl := range tails {
					for _, d := range docs {
						for _, md := range []string{"", "strict "} {
							i++
							if !mine(i) {
								continue
							}
							c := WrapChainCase{Path: md + st + l + tl, Doc: d}
							ev.Eval(c.Path+"\x00"+c.Doc, md == "" && tl != "")
							ev.Sample("wrapchain", c)
							if !b.Check("c14.wrapchain", c, checkWrapChain(c)) {
								return
							}
						}
					}
				}
			}
		}
		ev.Exhaustive("subscript_lists_on_non_arrays_by_following_steps_by_documents_by_mode", int64(i))
	})
	ev.rapidProp(t, "random", func(rt *rapid.T) {
		n := rapid.IntRange(0, 12).Draw(rt, "len")
		elems := make([]string, n)
		for i := range elems {
			elems[i] = rapid.SampledFrom([]string{`1`, `2.5`, `"s"`, `null`, `[]`, `[7,8]`, `{}`, `{"a":null}`, `true`}).Draw(rt, "elem")
		}
		doc := "[" + strings.Join(elems, ",") + "]"
		if rapid.IntRange(0, 9).Draw(rt, "scalar") == 0 {
			doc = rapid.SampledFrom([]string{`1`, `"s"`, `null`, `{}`, `true`}).Draw(rt, "sdoc")
		}
		bound := func(l string) Bound {
			switch rapid.IntRange(0, 9).Draw(rt, l+"k") {
			case 0:
				return Bound{Kind: "last"}
			case 1:
				return Bound{Kind: "lastminus", I: int64(rapid.IntRange(0, 13).Draw(rt, l+"m"))}
			case 2:
				return Bound{Kind: "num", F: float64(rapid.IntRange(-30, 150).Draw(rt, l+"f")) / 10}
			case 3:
				return subscriptBounds(true)[rapid.IntRange(0, len(subscriptBounds(true))-1).Draw(rt, l+"x")]
			}
			return Bound{Kind: "int", I: int64(rapid.IntRange(-3, 15).Draw(rt, l+"i"))}
		}
		k := rapid.IntRange(1, 3).Draw(rt, "nsubs")
		var subs []SubSpec
		for i := 0; i < k; i++ {
			s := SubSpec{From: bound(fmt.Sprintf("f%d", i))}
			if rapid.Bool().Draw(rt, fmt.Sprintf("r%d", i)) {
				tb := bound(fmt.Sprintf("t%d", i))
				s.To = &tb
			}
			subs = append(subs, s)
		}
		c := SubscriptCase{Strict: rapid.Bool().Draw(rt, "strict"), Doc: doc, Subs: subs, UseNumber: rapid.Bool().Draw(rt, "num")}
		v, f := checkSubscriptFacts(c)
		record("random", c, f)
		ev.Check(rt, "c14.subscript", c, v)
	})
}
