package checks

// Shared pieces of the execution-side checks: the serialisable case, its
// generator and the observation of all entry points.

import (
	"context"
	"fmt"
	"strings"

	"github.com/theory/sqljson/path"
	"github.com/theory/sqljson/path/exec"
	"pgregory.net/rapid"
)

// ExecCase is one (path, document, options) triple.
type ExecCase struct {
	Path string `json:"path"`
	Doc  string `json:"doc"`
	Opts Opts   `json:"opts"`
}

func (c ExecCase) Key() string {
	return fmt.Sprintf("%s\x00%s\x00%v|%v|%s|%v|%v", c.Path, c.Doc, c.Opts.Silent, c.Opts.TZ, c.Opts.Zone, c.Opts.UseNumber, c.Opts.Vars)
}

var zones = []string{"", "UTC", "+05:30", "-12:00", "America/New_York"}

// genOpts draws the option set; names are the variables the path may use.
func genOpts(t *rapid.T, dcfg DocCfg, names []string, withVars bool) Opts {
	o := Opts{
		UseNumber: rapid.Bool().Draw(t, "usenumber"),
		TZ:        rapid.IntRange(0, 99).Draw(t, "tz") < 45,
		Zone:      zones[rapid.IntRange(0, len(zones)-1).Draw(t, "zone")],
	}
	if withVars && rapid.IntRange(0, 99).Draw(t, "withvars") < 85 {
		o.HasVars = true
		o.Vars = GenVars(t, dcfg, names)
	}
	return o
}

// genExecCase draws a complete case.
func genExecCase(t *rapid.T, pcfg GenCfg, dcfg DocCfg) (ExecCase, *Path) {
	p := GenPath(t, pcfg)
	pc := pcfg.withDefaults()
	doc := GenDoc(t, dcfg, "doc")
	usesVars := p.Root.Has(func(n *Node) bool { return n.K == KVar })
	c := ExecCase{Path: p.Canon(), Doc: doc.Text(), Opts: genOpts(t, dcfg, pc.VarNames, usesVars)}
	if !c.Opts.UseNumber {
		// numbers outside float64 can only be decoded as json.Number
		if _, err := Decode(c.Doc, false); err != nil {
			c.Opts.UseNumber = true
		}
		for _, v := range c.Opts.Vars {
			if _, err := Decode(v, false); err != nil {
				c.Opts.UseNumber = true
			}
		}
	}
	return c, p
}

// Obs is everything the entry points returned for one case and mode.
type Obs struct {
	Query, First, Exists, Match, EoM Outcome
}

// prepared holds the decoded pieces of a case.
type prepared struct {
	c    ExecCase
	p    *path.Path
	tree *Path
	doc  any
	vars exec.Vars
	ctx  context.Context
}

func prepare(c ExecCase) (*prepared, error) {
	p, err, pan := ParseSafe(c.Path)
	if pan != "" {
		return nil, fmt.Errorf("parse panicked: %s", pan)
	}
	if err != nil {
		return nil, err
	}
	doc, err := Decode(c.Doc, c.Opts.UseNumber)
	if err != nil {
		return nil, err
	}
	for _, v := range c.Opts.Vars {
		if _, err := Decode(v, c.Opts.UseNumber); err != nil {
			return nil, err
		}
	}
	return &prepared{c: c, p: p, tree: PathFromAST(p.AST), doc: doc, vars: c.Opts.VarsValue(), ctx: c.Opts.Ctx()}, nil
}

func (pr *prepared) opts(silent bool) []exec.Option {
	o := pr.c.Opts
	o.Silent = silent
	return o.Options(pr.vars)
}

// observe runs the five entry points in the given mode.
func (pr *prepared) observe(silent bool) Obs {
	opt := pr.opts(silent)
	return Obs{
		Query:  RunQuery(pr.ctx, pr.p, pr.doc, opt...),
		First:  RunFirst(pr.ctx, pr.p, pr.doc, opt...),
		Exists: RunExists(pr.ctx, pr.p, pr.doc, opt...),
		Match:  RunMatch(pr.ctx, pr.p, pr.doc, opt...),
		EoM:    RunExistsOrMatch(pr.ctx, pr.p, pr.doc, opt...),
	}
}

func (pr *prepared) orderOpen() bool { return orderOpen(pr.tree.Root, pr.doc, pr.vars) }

// chainedKeyvalue reports whether the path has two or more .keyvalue() steps:
// the class of open finding D30 (the ids of the second step differ from run to
// run). Stability of ids is C16's statement; checks that compare two runs for
// another reason ignore the ids of such paths.
func (pr *prepared) chainedKeyvalue() bool {
	n := 0
	pr.tree.Root.Has(func(x *Node) bool {
		if x.K == KMethod && x.S == "keyvalue" {
			n++
		}
		return false
	})
	return n >= 2
}

// d9 reports whether err is the ErrInvalid of open finding D9 (a datetime
// item compared with a non-datetime, non-null item).
func isD9(err error) bool {
	return err != nil && classify(err) == EInvalid && strings.Contains(err.Error(), "unrecognized SQL/JSON datetime type")
}

func init() {
	quirkProbes["datetime_vs_nondatetime_invalid"] = func() bool {
		p, err := path.Parse(`$[0].datetime() == $[1]`)
		if err != nil {
			return false
		}
		o := RunQuery(context.Background(), p, []any{"2015-08-01", float64(1)})
		return isD9(o.Err)
	}
}

// nodeKinds lists the kinds present in a tree (for evidence labels).
func nodeKinds(n *Node) []string {
	seen := map[string]bool{}
	n.Walk(func(x *Node) {
		k := x.K
		switch x.K {
		case KMethod, KDT:
			k = "." + x.S
		case KBin, KUn:
			k = "op" + x.S
		}
		seen[k] = true
	})
	return sortedKeys(seen)
}
