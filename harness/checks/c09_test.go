package checks

// C09 — path steps compose and leave their evaluation context intact.

import (
	"encoding/json"
	"fmt"
	"strings"
	"testing"

	"github.com/theory/sqljson/path/exec"
	"pgregory.net/rapid"
)

// ComposeCase: head + chain, split at every interior point.
type ComposeCase struct {
	Strict bool   `json:"strict,omitempty"`
	Head   *Node  `json:"head"`  // $ , $var or a literal (without chain)
	Chain  *Node  `json:"chain"` // accessor chain; root-independent
	Doc    string `json:"doc"`
	Opts   Opts   `json:"opts"`
}

type composeFacts struct {
	splits     int
	nontrivial bool
	skipped    string
}

func chainSlice(n *Node) []*Node {
	var out []*Node
	for ; n != nil; n = n.Next {
		c := *n
		c.Next = nil
		out = append(out, &c)
	}
	return out
}

func linkChain(ns []*Node) *Node {
	var first, last *Node
	for _, n := range ns {
		c := n.Clone()
		c.Next = nil
		if first == nil {
			first = c
		} else {
			last.Next = c
		}
		last = c
	}
	return first
}

var checkCompose = register("c09.compose", func(c ComposeCase) *Violation {
	v, _ := checkComposeFacts(c)
	return v
})

func checkComposeFacts(c ComposeCase) (*Violation, composeFacts) {
	var f composeFacts
	steps := chainSlice(c.Chain)
	mk := func(head *Node, st []*Node) *Path {
		h := head.Clone()
		h.Next = linkChain(st)
		return &Path{Strict: c.Strict, Root: h}
	}
	full := mk(c.Head, steps)
	prFull, err := prepare(ExecCase{Path: full.Canon(), Doc: c.Doc, Opts: c.Opts})
	if err != nil {
		return nil, f
	}
	if prFull.orderOpen() {
		f.skipped = "member_order_open"
		return nil, f
	}
	if idMayEscape(full.Root) {
		// keyvalue ids are compared modulo the base object: a path that can read an id
		// (.id, a wildcard over the triple, a second .keyvalue()) is outside the relation
		f.skipped = "keyvalue_id_may_escape"
		return nil, f
	}
	run := func(pr *prepared, doc any) Outcome { return RunQuery(pr.ctx, pr.p, doc, pr.opts(false)...) }
	runSilent := func(pr *prepared, doc any) Outcome { return RunQuery(pr.ctx, pr.p, doc, pr.opts(true)...) }
	whole := run(prFull, prFull.doc)
	wholeSilent := runSilent(prFull, prFull.doc)
	if whole.Panic != "" || isD9(whole.Err) || wholeSilent.Panic != "" || isD9(wholeSilent.Err) {
		f.skipped = "panic_or_D9"
		return nil, f
	}
	firstSplit := 1
	if c.Head.IsExprHead() {
		firstSplit = 0 // the head itself produces the prefix items
	}
	for i := firstSplit; i < len(steps); i++ {
		pfx, sfx := steps[:i], steps[i:]
		if c.Strict && linkChain(pfx).Has(func(n *Node) bool { return n.K == KAny }) {
			continue // steps following .** in strict mode are excluded by the property
		}
		pP := mk(c.Head, pfx)
		pS := mk(&Node{K: KRoot}, sfx)
		prP, e1 := prepare(ExecCase{Path: pP.Canon(), Doc: c.Doc, Opts: c.Opts})
		prS, e2 := prepare(ExecCase{Path: pS.Canon(), Doc: "null", Opts: c.Opts})
		if e1 != nil || e2 != nil {
			continue
		}
		prP.doc, prP.vars = prFull.doc, prFull.vars
		prS.vars = prFull.vars
		f.splits++
		base := run(prP, prP.doc)
		if base.Panic != "" || isD9(base.Err) {
			continue
		}
		at := fmt.Sprintf("split %q | %q of %q on %s", pP.Canon(), pS.Canon(), full.Canon(), c.Doc)
		if base.Class != EOK {
			if whole.Class == EOK {
				return violf("%s: the prefix fails (%v) but the whole path succeeds with %v", at, base.Err, RenderSeq(whole.Items, true)), f
			}
			continue
		}
		var want, wantSilent []string
		wantClass := EOK
		for _, x := range base.Items {
			o := run(prS, x)
			os := runSilent(prS, x)
			if o.Panic != "" || isD9(o.Err) || os.Panic != "" || isD9(os.Err) {
				wantClass = "?"
				break
			}
			// with WithSilent the items found before the first failure are returned
			wantSilent = append(wantSilent, RenderSeq(os.Items, true)...)
			if o.Class != EOK {
				wantClass = o.Class
				break
			}
			want = append(want, RenderSeq(o.Items, true)...)
		}
		if wantClass == "?" {
			continue
		}
		if len(base.Items) >= 1 {
			f.nontrivial = true
		}
		if whole.Class != wantClass {
			return violf("%s: composing the prefix items %v with the suffix gives class %s, the whole path gives %s (%v)", at, RenderSeq(base.Items, true), wantClass, whole.Class, whole.Err), f
		}
		if wantClass == EOK && !sameSeq(want, RenderSeq(whole.Items, true)) {
			return violf("%s: concatenation over the prefix items %v is %v but the whole path returns %v", at, RenderSeq(base.Items, true), want, RenderSeq(whole.Items, true)), f
		}
		// the same composition with errors suppressed: the items up to the first failing prefix item
		if wantClass == EHard {
			if wholeSilent.Class != EHard {
				return violf("%s with WithSilent: the suffix fails with a non-suppressible error on a prefix item but the whole path returns %s", at, wholeSilent), f
			}
		} else if wholeSilent.Class != EOK || !sameSeq(wantSilent, RenderSeq(wholeSilent.Items, true)) {
			return violf("%s with WithSilent: concatenation over the prefix items %v up to the first failure is %v but the whole path returns %s", at, RenderSeq(base.Items, true), wantSilent, wholeSilent), f
		}
	}
	// a path that starts from a variable or a literal = the same steps from $ on that value
	var asDoc any
	have := false
	switch c.Head.K {
	case KVar:
		if v, ok := prFull.vars[c.Head.S]; ok {
			asDoc, have = v, true
		}
	case KInt:
		asDoc, have = json.Number(fmt.Sprint(c.Head.I)), true
	case KNum:
		asDoc, have = c.Head.F, true
	case KStr:
		asDoc, have = c.Head.S, true
	case KTrue:
		asDoc, have = true, true
	case KFalse:
		asDoc, have = false, true
	case KNull:
		asDoc, have = nil, true
	}
	if have {
		pS := mk(&Node{K: KRoot}, steps)
		prS, err := prepare(ExecCase{Path: pS.Canon(), Doc: "null", Opts: c.Opts})
		if err == nil {
			prS.vars = prFull.vars
			o := run(prS, asDoc)
			if o.Panic == "" && !isD9(o.Err) {
				f.nontrivial = true
				if o.Class != whole.Class || (o.Class == EOK && !sameSeq(RenderSeq(o.Items, true), RenderSeq(whole.Items, true))) {
					return violf("%q returns %s, but the same steps from $ on the value %s return %s", full.Canon(), whole, Render(asDoc, false), o), f
				}
			}
		}
	}
	return nil, f
}

// IsExprHead: the head is a parenthesised operator expression rather than $, a variable or a literal.
func (n *Node) IsExprHead() bool { return n.K == KUn || n.K == KBin }

func idMayEscape(root *Node) bool {
	kv := 0
	reads := root.Has(func(x *Node) bool {
		if x.K == KMethod && x.S == "keyvalue" {
			kv++
		}
		return x.K == KAnyKey || x.K == KAny || (x.K == KKey && x.S == "id")
	})
	return kv >= 2 || (kv == 1 && reads)
}

// ContextCase: re-use of @, last and $ after a nested construct.
type ContextCase struct {
	Kind   string `json:"kind"` // "at" | "last" | "root"
	Strict bool   `json:"strict,omitempty"`
	A      *Node  `json:"a"`
	B      *Node  `json:"b,omitempty"`
	Prefix *Node  `json:"prefix,omitempty"`
	Depth  int    `json:"depth,omitempty"`
	Doc    string `json:"doc"`
	Opts   Opts   `json:"opts"`
}

var checkContext = register("c09.context", func(c ContextCase) *Violation {
	q := func(p *Path) (Outcome, bool) {
		pr, err := prepare(ExecCase{Path: p.Canon(), Doc: c.Doc, Opts: c.Opts})
		if err != nil || pr.orderOpen() {
			return Outcome{}, false
		}
		o := RunQuery(pr.ctx, pr.p, pr.doc, pr.opts(false)...)
		return o, o.Panic == "" && !isD9(o.Err)
	}
	root := func(chain *Node) *Node { return &Node{K: KRoot, Next: chain} }
	switch c.Kind {
	case "at":
		// P ? (A && B) == P ? (B && A) in kept items: B contains a nested filter, A uses @
		p1 := &Path{Strict: c.Strict, Root: root(appendChain(c.Prefix.Clone(), &Node{K: KFilter, A: &Node{K: KBin, S: "&&", A: c.A.Clone(), B: c.B.Clone()}}))}
		p2 := &Path{Strict: c.Strict, Root: root(appendChain(c.Prefix.Clone(), &Node{K: KFilter, A: &Node{K: KBin, S: "&&", A: c.B.Clone(), B: c.A.Clone()}}))}
		o1, ok1 := q(p1)
		o2, ok2 := q(p2)
		if !ok1 || !ok2 || o1.Class == EHard || o2.Class == EHard {
			return nil
		}
		if o1.Class != o2.Class || !sameSeq(RenderSeq(o1.Items, true), RenderSeq(o2.Items, true)) {
			return violf("@ is disturbed by a nested filter: %q -> %s but %q -> %s on %s", p1.Canon(), o1, p2.Canon(), o2, c.Doc)
		}
	case "last":
		// $pfx[A, B] == $pfx[A] ++ $pfx[B]: A contains nested subscripts, B uses last
		both := &Path{Strict: c.Strict, Root: root(appendChain(c.Prefix.Clone(), &Node{K: KIdx, Subs: []Sub{{From: c.A.Clone()}, {From: c.B.Clone()}}}))}
		pa := &Path{Strict: c.Strict, Root: root(appendChain(c.Prefix.Clone(), &Node{K: KIdx, Subs: []Sub{{From: c.A.Clone()}}}))}
		pb := &Path{Strict: c.Strict, Root: root(appendChain(c.Prefix.Clone(), &Node{K: KIdx, Subs: []Sub{{From: c.B.Clone()}}}))}
		ob, ok := q(both)
		oa, ok1 := q(pa)
		o2, ok2 := q(pb)
		if !ok || !ok1 || !ok2 {
			return nil
		}
		if oa.Class != EOK {
			if ob.Class != oa.Class {
				return violf("%q -> %s although its first subscript alone fails: %q -> %s", both.Canon(), ob, pa.Canon(), oa)
			}
			return nil
		}
		// count the items of the prefix: the identity only holds per subscripted array
		pp := &Path{Strict: c.Strict, Root: root(c.Prefix.Clone())}
		op, okp := q(pp)
		if !okp || op.Class != EOK || len(op.Items) != 1 {
			return nil
		}
		if o2.Class != EOK {
			if ob.Class != o2.Class {
				return violf("last is disturbed by a nested subscript: %q -> %s but %q -> %s", both.Canon(), ob, pb.Canon(), o2)
			}
			return nil
		}
		want := append(RenderSeq(oa.Items, true), RenderSeq(o2.Items, true)...)
		if ob.Class != EOK || !sameSeq(want, RenderSeq(ob.Items, true)) {
			return violf("last is disturbed by a nested subscript: %q -> %s, but %q -> %v and %q -> %v on %s", both.Canon(), ob, pa.Canon(), RenderSeq(oa.Items, true), pb.Canon(), RenderSeq(o2.Items, true), c.Doc)
		}
	case "at_sub":
		// after a nested filter, @ in a later subscript of the same chain denotes the outer
		// item: $[*] ? (@.o ? (A).arr[f(@.pick)] op lit) keeps exactly the rows x for which
		// $ ? (@.o ? (A).arr[f(v)] op lit) keeps x, v being the literal value of x.pick
		mkPath := func(prefix *Node, pick *Node) *Path {
			var sub Sub
			switch c.Depth {
			case 0:
				sub = Sub{From: pick}
			case 1:
				sub = Sub{From: &Node{K: KBin, S: "-", A: &Node{K: KLast}, B: pick}}
			case 2:
				sub = Sub{From: pick, To: &Node{K: KLast}}
			default:
				sub = Sub{From: &Node{K: KInt, I: 0}, To: pick}
			}
			inner := &Node{K: KCur, Next: &Node{K: KKey, S: "o", Next: &Node{K: KFilter, A: c.A.Clone(), Next: &Node{K: KKey, S: "arr", Next: &Node{K: KIdx, Subs: []Sub{sub}}}}}}
			cond := &Node{K: KBin, S: c.B.S, A: inner, B: c.B.B.Clone()}
			return &Path{Strict: c.Strict, Root: &Node{K: KRoot, Next: appendChain(prefix, &Node{K: KFilter, A: cond})}}
		}
		whole := mkPath(&Node{K: KAnyArr}, &Node{K: KCur, Next: &Node{K: KKey, S: "pick"}})
		ow, okw := q(whole)
		rows, okr := q(&Path{Strict: c.Strict, Root: &Node{K: KRoot, Next: &Node{K: KAnyArr}}})
		if !okw || !okr || rows.Class != EOK {
			return nil
		}
		var want []string
		wantClass := EOK
		for _, x := range rows.Items {
			m, _ := x.(map[string]any)
			lit := litFor(m["pick"])
			if lit == nil {
				return nil
			}
			p := mkPath(nil, lit)
			pp, _, pan := ParseSafe(p.Canon())
			if pan != "" || pp == nil {
				return nil
			}
			o := RunQuery(c.Opts.Ctx(), pp, x)
			if o.Panic != "" || isD9(o.Err) {
				return nil
			}
			if o.Class != EOK {
				wantClass = o.Class
				break
			}
			want = append(want, RenderSeq(o.Items, true)...)
		}
		if ow.Class != wantClass || (wantClass == EOK && !sameSeq(want, RenderSeq(ow.Items, true))) {
			return violf("@ after a nested filter does not denote the outer item: %q -> %s on %s, but row by row with the value of @.pick substituted the rows kept are %v (class %s)", whole.Canon(), ow, c.Doc, want, wantClass)
		}
	case "root":
		// inside nested filters $ denotes the whole document: @ op E($) == @ op literal(value of E)
		pe := &Path{Strict: c.Strict, Root: c.A.Clone()}
		oe, ok := q(pe)
		if !ok || oe.Class != EOK || len(oe.Items) != 1 {
			return nil
		}
		lit := litFor(oe.Items[0])
		if lit == nil {
			return nil
		}
		wrap := func(cmp *Node) *Node {
			cond := cmp
			for d := 1; d < c.Depth; d++ {
				cond = &Node{K: KExists, A: &Node{K: KCur, Next: &Node{K: KFilter, A: cond}}}
			}
			return cond
		}
		op := c.B.S
		p1 := &Path{Strict: c.Strict, Root: root(appendChain(c.Prefix.Clone(), &Node{K: KFilter, A: wrap(&Node{K: KBin, S: op, A: &Node{K: KCur}, B: c.A.Clone()})}))}
		p2 := &Path{Strict: c.Strict, Root: root(appendChain(c.Prefix.Clone(), &Node{K: KFilter, A: wrap(&Node{K: KBin, S: op, A: &Node{K: KCur}, B: lit})}))}
		o1, ok1 := q(p1)
		o2, ok2 := q(p2)
		if !ok1 || !ok2 {
			return nil
		}
		if o1.Class != o2.Class || !sameSeq(RenderSeq(o1.Items, true), RenderSeq(o2.Items, true)) {
			return violf("$ inside a nested filter does not denote the whole document: %q -> %s but with its value substituted %q -> %s on %s", p1.Canon(), o1, p2.Canon(), o2, c.Doc)
		}
	}
	return nil
})

func appendChain(chain, last *Node) *Node {
	if chain == nil {
		return last
	}
	chain.chainEnd().Next = last
	return chain
}

func TestC09(t *testing.T) {
	ev := newEv(t, "C09")
	ev.replayTier(t)
	ev.rapidProp(t, "compose", func(rt *rapid.T) {
		cfg := GenCfg{MaxNodes: 12, HardErrPct: 6, NoKeyvalue: rapid.IntRange(0, 9).Draw(rt, "nokv") < 5, NoRoot: true, NoWildKey: rapid.IntRange(0, 9).Draw(rt, "nowild") < 7}.withDefaults()
		g := &pgen{t: rt, c: cfg}
		strict := g.chance(45, "strict")
		doc := GenDoc(rt, DocCfg{Rich: rapid.IntRange(0, 9).Draw(rt, "rich") < 7}, "doc")
		useNumber := rapid.Bool().Draw(rt, "num")
		opts := genOpts(rt, DocCfg{}, defVars, true)
		opts.UseNumber = useNumber
		head := &Node{K: KRoot}
		var walkDoc any = MustDecode(doc.Text(), useNumber)
		switch g.choose("head", 52, 12, 12, 24) {
		case 3:
			// a parenthesised operator expression as the producer of the prefix items
			w, _ := GenWalk(rt, walkDoc, 2, strict, "hw")
			operand := &Node{K: KRoot, Next: w}
			if g.chance(50, "hunwrap") {
				operand.Next = appendChain(operand.Next, &Node{K: KAnyArr})
			}
			switch g.choose("hexpr", 50, 35, 15) {
			case 0:
				head = &Node{K: KUn, S: g.pick([]string{"-", "+"}, "hsgn"), A: operand}
			case 1:
				head = &Node{K: KBin, S: g.pick(arithOps, "hop"), A: operand, B: &Node{K: KInt, I: int64(1 + g.n(3, "hlit"))}}
			default:
				head = &Node{K: KBin, S: g.pick(cmpOps, "hcmp"), A: operand, B: g.literal()}
			}
			head = Normalize(head)
			walkDoc = nil
		case 1:
			head = &Node{K: KVar, S: g.pick([]string{"x", "y", "z"}, "hv")}
			if txt, ok := opts.Vars[head.S]; ok {
				walkDoc = MustDecode(txt, useNumber)
			}
		case 2:
			head = g.literal()
			walkDoc = nil
		}
		var chain *Node
		var reach []any
		if walkDoc != nil && g.chance(75, "walk") {
			chain, reach = GenWalk(rt, walkDoc, 3, strict, "w")
		}
		g.budget = 2 + g.n(sz(8), "size")
		tail := g.chain(gctx{}, 1+g.n(3, "tail"))
		for _, r := range reach {
			if m, ok := r.(map[string]any); ok && len(m) >= 2 && !cfg.NoKeyvalue && g.chance(60, "kvdirect") {
				// the members of a reached object as a sequence of triples: the suffix sees the
				// values one by one, in key order, and may fail on one that is not the last
				tail = &Node{K: KMethod, S: "keyvalue", Next: &Node{K: KKey, S: g.pick([]string{"value", "value", "key"}, "kvk"), Next: tail}}
				break
			}
		}
		chain = appendChain(chain, tail)
		c := ComposeCase{Strict: strict, Head: head, Chain: Normalize(chain), Doc: doc.Text(), Opts: opts}
		v, f := checkComposeFacts(c)
		key, _ := json.Marshal(c)
		ev.Eval(string(key), f.nontrivial && f.skipped == "")
		if f.skipped != "" {
			ev.Label("skipped:" + f.skipped)
		} else {
			ev.Label(fmt.Sprintf("head:%s", head.K))
			if head.IsExprHead() {
				ev.Label("head:expression")
			}
		}
		fh := head.Clone()
		fh.Next = c.Chain
		full := &Path{Strict: strict, Root: fh}
		ev.Sample("compose:"+head.K, map[string]any{"path": full.Canon(), "doc": c.Doc, "splits": f.splits})
		ev.Check(rt, "c09.compose", c, v)
	})
	ev.rapidProp(t, "context", func(rt *rapid.T) {
		cfg := GenCfg{MaxNodes: 8, HardErrPct: 3, NoKeyvalue: true, NoWildKey: true, NoAny: true}.withDefaults()
		g := &pgen{t: rt, c: cfg}
		strict := g.chance(40, "strict")
		doc := GenDoc(rt, DocCfg{Rich: true}, "doc")
		useNumber := rapid.Bool().Draw(rt, "num")
		d := MustDecode(doc.Text(), useNumber)
		c := ContextCase{Strict: strict, Doc: doc.Text(), Opts: Opts{UseNumber: useNumber, TZ: true}}
		switch g.choose("kind", 30, 25, 25, 20) {
		case 3:
			c.Kind = "at_sub"
			// rows whose own pick differs from the pick of the nested object
			nrows := 1 + g.n(3, "nrows")
			var rows []string
			for r := 0; r < nrows; r++ {
				alen := 1 + g.n(4, "alen")
				arr := make([]string, alen)
				for k := range arr {
					arr[k] = fmt.Sprint(10 * (1 + g.n(4, "aval")))
				}
				rows = append(rows, fmt.Sprintf(`{"o":{"ok":%v,"arr":[%s],"pick":%d},"pick":%d}`, g.chance(70, "ok"), strings.Join(arr, ","), g.n(4, "opick"), g.n(4, "pick")))
			}
			c.Doc = "[" + strings.Join(rows, ",") + "]"
			c.Opts = Opts{UseNumber: useNumber}
			switch g.choose("acond", 40, 30, 30) {
			case 0:
				c.A = &Node{K: KBin, S: "==", A: &Node{K: KCur, Next: &Node{K: KKey, S: "ok"}}, B: &Node{K: KTrue}}
			case 1:
				c.A = &Node{K: KBin, S: g.pick(cmpOps, "aop"), A: &Node{K: KCur, Next: &Node{K: KKey, S: "pick"}}, B: &Node{K: KInt, I: int64(g.n(4, "ak"))}}
			default:
				c.A = &Node{K: KExists, A: &Node{K: KCur, Next: &Node{K: KKey, S: "arr", Next: &Node{K: KIdx, Subs: []Sub{{From: &Node{K: KInt, I: int64(g.n(4, "ek"))}}}}}}}
			}
			c.B = &Node{K: KBin, S: g.pick(cmpOps, "op"), B: &Node{K: KInt, I: int64(10 * (1 + g.n(4, "lit")))}}
			c.Depth = g.n(4, "form")
		case 0:
			c.Kind = "at"
			var reach []any
			c.Prefix, reach = GenWalk(rt, d, 2, strict, "w")
			g.budget = 4
			c.A = Normalize(GenCondFor(rt, reach, g, "a"))
			// B: a nested filter (re-binds @) inside exists or a comparison
			g.budget = 5
			inner := Normalize(GenCondFor(rt, reach, g, "b"))
			c.B = &Node{K: KExists, A: &Node{K: KCur, Next: &Node{K: KFilter, A: inner}}}
			if g.chance(40, "nestkey") {
				c.B = &Node{K: KExists, A: &Node{K: KCur, Next: &Node{K: KAnyArr, Next: &Node{K: KFilter, A: inner}}}}
			}
		case 1:
			c.Kind = "last"
			c.Prefix, _ = GenWalk(rt, d, 2, strict, "w")
			// A: an index computed from another array with its own last / nested subscript
			inner, _ := GenWalk(rt, d, 2, strict, "v")
			c.A = &Node{K: KRoot, Next: appendChain(inner, &Node{K: KIdx, Subs: []Sub{{From: &Node{K: KLast}}}, Next: &Node{K: KMethod, S: "size"}})}
			if g.chance(50, "ashape") {
				c.A = &Node{K: KRoot, Next: appendChain(inner.Clone(), &Node{K: KIdx, Subs: []Sub{{From: &Node{K: KBin, S: "-", A: &Node{K: KLast}, B: &Node{K: KLast}}}}, Next: &Node{K: KMethod, S: "size"}})}
			}
			if g.chance(40, "existsA") {
				// an index guarded by exists() over a path with its own subscript and a further step
				other, _ := GenWalk(rt, d, 2, strict, "o")
				step := []*Node{{K: KAnyArr}, {K: KKey, S: g.pick(defKeys[:3], "ok")}, {K: KMethod, S: "type"}}[g.n(3, "ostep")]
				probe := &Node{K: KRoot, Next: appendChain(other, &Node{K: KIdx, Subs: []Sub{{From: &Node{K: KInt, I: 0}}}, Next: step})}
				c.A = &Node{K: KInt, I: 0, Next: &Node{K: KFilter, A: &Node{K: KExists, A: probe}}}
			}
			if g.chance(25, "failA") {
				// index 0 guarded by a predicate whose operand contains a nested subscript that
				// fails under suppression: (E[<failing subscript>] == 1) is unknown is true
				other, _ := GenWalk(rt, d, 2, strict, "fo")
				bad := []*Node{{K: KRoot, Next: &Node{K: KKey, S: "nosuchkey"}}, {K: KStr, S: "x"}, {K: KNum, F: 1e10}, {K: KRoot, Next: &Node{K: KAnyArr}}}[g.n(4, "fbad")]
				probe := &Node{K: KRoot, Next: appendChain(other, &Node{K: KIdx, Subs: []Sub{{From: bad}}})}
				c.A = &Node{K: KInt, I: 0, Next: &Node{K: KFilter, A: &Node{K: KIsUnknown, A: &Node{K: KBin, S: "==", A: probe, B: &Node{K: KInt, I: 1}}}}}
			}
			c.B = []*Node{{K: KLast}, {K: KBin, S: "-", A: &Node{K: KLast}, B: &Node{K: KInt, I: 1}}, {K: KInt, I: 0}}[g.n(3, "b")]
		default:
			c.Kind = "root"
			var reach []any
			c.Prefix, reach = GenWalk(rt, d, 2, strict, "w")
			_ = reach
			e, _ := GenWalk(rt, d, 3, strict, "e")
			c.A = &Node{K: KRoot, Next: e}
			c.B = &Node{K: KBin, S: g.pick(cmpOps, "op")}
			c.Depth = 1 + g.n(3, "depth")
		}
		v := checkContext(c)
		key, _ := json.Marshal(c)
		ev.Eval(string(key), true)
		ev.Label("context:" + c.Kind)
		ev.Sample("context:"+c.Kind, c)
		ev.Check(rt, "c09.context", c, v)
	})
	_ = exec.Vars{}
}
