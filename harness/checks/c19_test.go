package checks

// C19 — a parsed Path is immutable, concurrency-safe and deterministic.
// Run under the race detector (the driver builds this check with -race).

import (
	"encoding/json"
	"fmt"
	"os"
	"path/filepath"
	"runtime"
	"sort"
	"strings"
	"sync"
	"testing"

	"github.com/theory/sqljson/path"
	"github.com/theory/sqljson/path/exec"
	"pgregory.net/rapid"
)

// ConcOp is one call made by one goroutine.
type ConcOp struct {
	Path   int    `json:"path"`
	Doc    int    `json:"doc"`
	Kind   string `json:"kind"` // Query | First | Exists | Match | String | Parse
	Silent bool   `json:"silent,omitempty"`
	Yield  bool   `json:"yield,omitempty"` // runtime.Gosched() before the call
}

// ConcScenario: shared paths, documents and variables; per-goroutine op lists.
type ConcScenario struct {
	Paths      []string          `json:"paths"`
	Docs       []string          `json:"docs"`
	Vars       map[string]string `json:"vars"`
	UseNumber  bool              `json:"use_number,omitempty"`
	Zone       string            `json:"zone,omitempty"`
	Zones      []string          `json:"zones,omitempty"` // per goroutine; overrides Zone when set
	Goroutines [][]ConcOp        `json:"goroutines"`
}

func (c ConcScenario) zoneOf(gi int) string {
	if gi < len(c.Zones) {
		return c.Zones[gi]
	}
	return c.Zone
}

var concBasePool = []string{
	`$.a[*] ? (@.b like_regex "^a" flag "i")`, `$.** ? (@ like_regex "b$")`, `$.s.datetime()`, `$.t.timestamp_tz().string()`, `$.d.date() < $.t.datetime()`,
	`$.a.keyvalue()`, `$.keyvalue().key`, `$x[*] ? (@ > $y)`, `$.a[*] ? (exists(@.c ? (@ > $y)))`, `strict $.**.b`, `$.a[last].b`, `$.a[0 to last].size()`,
	`($.a[*].b starts with "a") is unknown`, `-$.n`, `$.n * 2 + 1`, `$.n.decimal(5,2)`, `$.a[*].b.string().type()`, `$.a ? (@[*].c > 1 && !(@[*].c > 5))`, `$x.size() == 3`, `strict $.nokey`,
	`$.t.time_tz(2)`, `$.n.double() / 0`, `$[*]`, `$.a[*].c ? (@.type() == "number").abs()`,
	// literals that take the slow path of the printer (BEL, unprintable astral code points), each different
	"$.\"\u0007a\"", "\"\U000E0001x\" == $.a", "$\"v\u0007w\"", "$ like_regex \"\u0007+\"", "$.\"k\U000E0002\".\"\u0007\"", "$.a ? (@.b == \"\u0007\U000E0003\")",
	// values with their own offsets, cast and compared in the context zone of the caller
	`$.ts[*].timestamp_tz()`, `$.ts[*].time_tz()`, `$.ts[*].timestamp_tz().string()`, `$.ts[*] ? (@.timestamp_tz() < "2015-08-01T12:00:00+00:00".timestamp_tz())`, `$.tms[*].time_tz().string()`, `$.tms[*].time().time_tz()`,
	`$.ts[*].timestamp()`, `$.ts[*].date()`, `$.s.timestamp_tz()`, `$.s.date().timestamp_tz().string()`, `$.ts[*].timestamp_tz().timestamp().string()`,
}

var concDocs = []string{
	`{"a":[{"b":"ab","c":1},{"b":"Ax","c":[2,7]},{"b":null}],"s":"2015-08-01","t":"2015-08-01T12:34:56+05:30","d":"2015-08-02","n":-2.5,"ts":["2015-08-01T12:34:56+05:30","2015-08-01T01:00:00-08:00","2015-08-01T23:59:59+00:00","2015-08-01T00:00:01-03:30","2015-08-01T12:00:00+14:00"],"tms":["12:34:56+05:30","01:00:00-08:00","23:59:59+00:00","00:00:01-03:30","12:00:00"]}`,
	`[1,"a",null,[2,3],{"a":1}]`,
	`{"a":{"b":1},"n":"x"}`,
}

type concResult struct {
	class string
	items []string
	boolv bool
	text  string
}

func (r concResult) String() string {
	return fmt.Sprintf("class=%s items=%v bool=%v text=%q", r.class, r.items, r.boolv, r.text)
}

func runConcOp(op ConcOp, zone string, paths []*path.Path, texts []string, docs []any, o Opts, vars map[string]any) (res concResult) {
	defer func() {
		if r := recover(); r != nil {
			res = concResult{class: EPanic, text: fmt.Sprint(r)}
		}
	}()
	p := paths[op.Path]
	opts := o
	opts.Silent = op.Silent
	opts.Zone = zone
	eo := opts.Options(vars)
	ctx := opts.Ctx()
	switch op.Kind {
	case "Query":
		out := RunQuery(ctx, p, docs[op.Doc], eo...)
		return concResult{class: out.Class + out.Panic, items: RenderSeq(out.Items, false)}
	case "First":
		out := RunFirst(ctx, p, docs[op.Doc], eo...)
		return concResult{class: out.Class + out.Panic, text: Render(out.Item, false)}
	case "Exists":
		out := RunExists(ctx, p, docs[op.Doc], eo...)
		return concResult{class: out.Class + out.Panic, boolv: out.Bool}
	case "Match":
		out := RunMatch(ctx, p, docs[op.Doc], eo...)
		return concResult{class: out.Class + out.Panic, boolv: out.Bool}
	case "String":
		return concResult{class: EOK, text: p.String()}
	default: // Parse
		q, err := path.Parse(texts[op.Path])
		if err != nil {
			return concResult{class: "parse-error", text: err.Error()}
		}
		return concResult{class: EOK, text: q.String()}
	}
}

var checkConc = register("c19.scenario", func(c ConcScenario) *Violation {
	// two instances of every path: one only for analysis and for the isolated
	// reference runs, a fresh one (never touched before) for the concurrent
	// phase, so that lazily initialised state cannot be warmed up beforehand
	var refPaths, paths []*path.Path
	var trees []*Path
	for _, t := range c.Paths {
		p, err := path.Parse(t)
		if err != nil {
			return nil
		}
		q, err := path.Parse(t)
		if err != nil {
			return nil
		}
		refPaths = append(refPaths, p)
		paths = append(paths, q)
		trees = append(trees, PathFromAST(p.AST))
	}
	var docs []any
	for _, d := range c.Docs {
		v, err := Decode(d, c.UseNumber)
		if err != nil {
			return nil
		}
		docs = append(docs, v)
	}
	o := Opts{TZ: true, Zone: c.Zone, UseNumber: c.UseNumber, Vars: c.Vars, HasVars: true}
	varsTyped := o.VarsValue()
	vars := map[string]any(varsTyped)
	docCopies, varsCopy := deepCopy(any(docs)), deepCopy(varsTyped)
	// expected: every distinct call executed alone, beforehand
	type key struct {
		p, d   int
		kind   string
		silent bool
		zone   string
	}
	want := map[key]concResult{}
	for gi, g := range c.Goroutines {
		for _, op := range g {
			k := key{op.Path, op.Doc, op.Kind, op.Silent, c.zoneOf(gi)}
			if _, ok := want[k]; !ok {
				want[k] = runConcOp(op, c.zoneOf(gi), refPaths, c.Paths, docs, o, vars)
			}
		}
	}
	// concurrent run
	got := make([][]concResult, len(c.Goroutines))
	var wg sync.WaitGroup
	start := make(chan struct{})
	for gi, g := range c.Goroutines {
		got[gi] = make([]concResult, len(g))
		wg.Add(1)
		go func(gi int, g []ConcOp) {
			defer wg.Done()
			<-start
			for i, op := range g {
				if op.Yield {
					runtime.Gosched()
				}
				got[gi][i] = runConcOp(op, c.zoneOf(gi), paths, c.Paths, docs, o, vars)
			}
		}(gi, g)
	}
	close(start)
	wg.Wait()
	for gi, g := range c.Goroutines {
		for i, op := range g {
			w, r := want[key{op.Path, op.Doc, op.Kind, op.Silent, c.zoneOf(gi)}], got[gi][i]
			open := orderOpen(trees[op.Path].Root, docs[op.Doc], varsTyped)
			chainedKV := strings.Count(c.Paths[op.Path], "keyvalue()") >= 2
			at := fmt.Sprintf("goroutine %d (zone %q) call %d: %s(%q, doc %d, silent=%v)", gi, c.zoneOf(gi), i, op.Kind, c.Paths[op.Path], op.Doc, op.Silent)
			if strings.Contains(r.class, EPanic) {
				return violf("%s panicked when run concurrently: %s", at, r.text)
			}
			if open && (w.class != r.class || op.Silent || hasPredicate(trees[op.Path].Root)) {
				// which error is met first, and what a silent run collected before it, depends on the member order
				continue
			}
			same := w.class == r.class && w.boolv == r.boolv
			if same && !chainedKV {
				if open {
					same = sameMultiset(w.items, r.items)
					if op.Kind == "First" {
						same = true
					}
				} else {
					same = sameSeq(w.items, r.items) && w.text == r.text
				}
			}
			if !same {
				return violf("%s returned %s when run concurrently, but %s when run alone", at, r, w)
			}
		}
	}
	// repeating the calls after this history, alone, on the paths the goroutines used
	for k, w := range want {
		op := ConcOp{Path: k.p, Doc: k.d, Kind: k.kind, Silent: k.silent}
		r := runConcOp(op, k.zone, paths, c.Paths, docs, o, vars)
		open := orderOpen(trees[k.p].Root, docs[k.d], varsTyped)
		if open || strings.Count(c.Paths[k.p], "keyvalue()") >= 2 {
			continue
		}
		_ = hasPredicate
		if w.class != r.class || w.boolv != r.boolv || !sameSeq(w.items, r.items) || w.text != r.text {
			return violf("%s(%q, doc %d) returns %s after the concurrent history, but %s on a fresh Path", k.kind, c.Paths[k.p], k.d, r, w)
		}
	}
	if !deepEqualJSON(docCopies, any(docs)) {
		return violf("a shared document was modified by concurrent calls")
	}
	if !deepEqualJSON(varsCopy, varsTyped) {
		return violf("the shared variables map was modified by concurrent calls")
	}
	return nil
})

// AliasCase: a parsed Path is a value of its own. Re-parsing the same text, or
// scanning / unmarshalling another text into a second Path, must not change a
// Path somebody else holds; and the option values of one call (two WithVars
// maps) are not written to.
type AliasCase struct {
	T2  string `json:"t"`
	U2  string `json:"u"`
	Doc string `json:"doc"`
	How string `json:"how"` // Scan | UnmarshalText | UnmarshalBinary
}

var checkAlias = register("c19.alias", func(c AliasCase) *Violation {
	tText, uText := c.T2, c.U2
	a, err := path.Parse(tText)
	if err != nil {
		return nil
	}
	if _, err := path.Parse(uText); err != nil {
		return nil
	}
	doc, derr := Decode(c.Doc, false)
	if derr != nil {
		return nil
	}
	wantText := a.String()
	before := RunQuery(Opts{}.Ctx(), a, doc)
	tree := PathFromAST(a.AST)
	// a second holder parses the same text and then reads another path into its variable
	b, err := path.Parse(tText)
	if err != nil {
		return violf("Parse(%q) succeeded once and failed the second time: %v", tText, err)
	}
	_ = b.String() // anything derived lazily from the first text is computed now
	_, _ = b.MarshalText()
	var serr error
	switch c.How {
	case "Scan":
		serr = b.Scan(uText)
	case "UnmarshalText":
		serr = b.UnmarshalText([]byte(uText))
	default:
		serr = b.UnmarshalBinary([]byte(uText))
	}
	if serr != nil {
		return violf("%s(%q) into a parsed Path failed: %v", c.How, uText, serr)
	}
	// the overwritten Path is now the second path, in what it prints and in what it returns
	u, _ := path.Parse(uText)
	if got, want := b.String(), u.String(); got != want {
		return violf("a Path parsed from %q and then overwritten by %s(%q) prints as %q, want %q", tText, c.How, uText, got, want)
	}
	if mt, err := b.MarshalText(); err != nil || string(mt) != u.String() {
		return violf("a Path parsed from %q and then overwritten by %s(%q) marshals as %q (%v), want %q", tText, c.How, uText, mt, err, u.String())
	}
	if ut := PathFromAST(u.AST); !orderOpen(ut.Root, doc) {
		ob, ou := RunQuery(Opts{}.Ctx(), b, doc), RunQuery(Opts{}.Ctx(), u, doc)
		if ob.Class != ou.Class || !sameSeq(RenderSeq(ob.Items, true), RenderSeq(ou.Items, true)) {
			return violf("a Path parsed from %q and then overwritten by %s(%q) returns %s, a fresh Parse(%q) returns %s", tText, c.How, uText, ob, uText, ou)
		}
	}
	if got := a.String(); got != wantText {
		return violf("a Path parsed from %q prints as %q after another Path parsed from the same text was overwritten by %s(%q)", tText, got, c.How, uText)
	}
	if orderOpen(tree.Root, doc) {
		return nil
	}
	after := RunQuery(Opts{}.Ctx(), a, doc)
	if before.Class != after.Class || !sameSeq(RenderSeq(before.Items, true), RenderSeq(after.Items, true)) {
		return violf("Query(%q) changed from %s to %s after another Path parsed from the same text was overwritten by %s(%q)", tText, before, after, c.How, uText)
	}
	fresh, err := path.Parse(tText)
	if err != nil || fresh.String() != wantText {
		return violf("Parse(%q) now yields %v (%v), before it printed %q", tText, fresh, err, wantText)
	}
	return nil
})

// VarsCase: one call with two WithVars options, then calls with each map alone.
type VarsCase struct {
	Path string            `json:"path"`
	Doc  string            `json:"doc"`
	V1   map[string]string `json:"v1"`
	V2   map[string]string `json:"v2"`
}

var checkVarsShared = register("c19.vars", func(c VarsCase) *Violation {
	p, err := path.Parse(c.Path)
	if err != nil {
		return nil
	}
	doc, derr := Decode(c.Doc, false)
	if derr != nil {
		return nil
	}
	v1, v2 := (Opts{Vars: c.V1, HasVars: true}).VarsValue(), (Opts{Vars: c.V2, HasVars: true}).VarsValue()
	c1, c2 := deepCopy(v1), deepCopy(v2)
	tree := PathFromAST(p.AST)
	alone1 := RunQuery(Opts{}.Ctx(), p, doc, exec.WithVars(v1))
	alone2 := RunQuery(Opts{}.Ctx(), p, doc, exec.WithVars(v2))
	both := RunQuery(Opts{}.Ctx(), p, doc, exec.WithVars(v1), exec.WithVars(v2))
	if both.Panic != "" {
		return violf("Query(%q) with two WithVars options panicked: %s", c.Path, both.Panic)
	}
	if !deepEqualJSON(c1, v1) || !deepEqualJSON(c2, v2) {
		return violf("a variables map passed to Query(%q) was modified: first %v -> %v, second %v -> %v", c.Path, Render(map[string]any(c1.(exec.Vars)), false), Render(map[string]any(v1), false), Render(map[string]any(c2.(exec.Vars)), false), Render(map[string]any(v2), false))
	}
	if orderOpen(tree.Root, doc, v1) || orderOpen(tree.Root, doc, v2) {
		return nil
	}
	again1 := RunQuery(Opts{}.Ctx(), p, doc, exec.WithVars(v1))
	again2 := RunQuery(Opts{}.Ctx(), p, doc, exec.WithVars(v2))
	for _, x := range []struct{ a, b Outcome }{{alone1, again1}, {alone2, again2}} {
		if x.a.Class != x.b.Class || !sameSeq(RenderSeq(x.a.Items, true), RenderSeq(x.b.Items, true)) {
			return violf("Query(%q) with one variables map returned %s before and %s after a call that was given two maps", c.Path, x.a, x.b)
		}
	}
	return nil
})

// RepeatCase: the same call repeated on the same inputs returns the same items (order of object
// members aside) and the same error - also when the outcome hinges on which member of an object
// a wildcard meets first (lax mode stops at the first item found or the first error met).
type RepeatCase struct {
	Path   string `json:"path"`
	Doc    string `json:"doc"`
	Rounds int    `json:"rounds"`
}

var checkRepeat = register("c19.repeat", func(c RepeatCase) *Violation {
	p, err := path.Parse(c.Path)
	if err != nil {
		return nil
	}
	doc, derr := Decode(c.Doc, false)
	if derr != nil {
		return nil
	}
	outcome := func(silent bool) string {
		o := Opts{TZ: true, Silent: silent}
		opt := o.Options(nil)
		q := RunQuery(o.Ctx(), p, doc, opt...)
		e := RunExists(o.Ctx(), p, doc, opt...)
		f := RunFirst(o.Ctx(), p, doc, opt...)
		items := RenderSeq(q.Items, true)
		sort.Strings(items) // the order of object members aside
		return fmt.Sprintf("Query: %s%s %v | Exists: %s%s %v | First: %s%s", q.Class, q.Panic, items, e.Class, e.Panic, e.Bool, f.Class, f.Panic)
	}
	for _, silent := range []bool{false, true} {
		first := outcome(silent)
		for i := 1; i < c.Rounds; i++ {
			if again := outcome(silent); again != first {
				return violf("repeating %q on %s (silent=%v) gives different outcomes on the same inputs: %s, then (call %d) %s", c.Path, c.Doc, silent, first, i+1, again)
			}
		}
	}
	return nil
})

// StormCase: many goroutines, each in its own named context zone, repeat a few
// datetime casts whose result depends on the zone; every call must return what
// it returns alone. (State shared between calls in different zones - a cache of
// zone data, say - shows only under sustained concurrent use.)
type StormCase struct {
	Zones  []string `json:"zones"`
	Paths  []string `json:"paths"`
	Doc    string   `json:"doc"`
	Rounds int      `json:"rounds"`
	PerZ   int      `json:"goroutines_per_zone"`
}

var checkStorm = register("c19.zone_storm", func(c StormCase) *Violation {
	var paths []*path.Path
	for _, t := range c.Paths {
		p, err := path.Parse(t)
		if err != nil {
			return violf("harness: %q does not parse: %v", t, err)
		}
		paths = append(paths, p)
	}
	doc := MustDecode(c.Doc, false)
	call := func(p *path.Path, zone string) string {
		o := Opts{TZ: true, Zone: zone}
		out := RunQuery(o.Ctx(), p, doc, o.Options(nil)...)
		return out.Class + out.Panic + fmt.Sprint(RenderSeq(out.Items, false))
	}
	alone := map[string][]string{}
	for _, z := range c.Zones {
		for _, p := range paths {
			alone[z] = append(alone[z], call(p, z))
		}
	}
	var wg sync.WaitGroup
	var mu sync.Mutex
	var first *Violation
	stop := make(chan struct{})
	var once sync.Once
	for _, z := range c.Zones {
		for k := 0; k < c.PerZ; k++ {
			wg.Add(1)
			go func(z string) {
				defer wg.Done()
				for n := 0; n < c.Rounds; n++ {
					select {
					case <-stop:
						return
					default:
					}
					for i, p := range paths {
						if got := call(p, z); got != alone[z][i] {
							mu.Lock()
							if first == nil {
								first = violf("Query(%q) in context zone %q returned %s when %d goroutines worked in %d different zones, but %s when run alone (round %d)", c.Paths[i], z, got, len(c.Zones)*c.PerZ, len(c.Zones), alone[z][i], n)
							}
							mu.Unlock()
							once.Do(func() { close(stop) })
							return
						}
					}
				}
			}(z)
		}
	}
	wg.Wait()
	return first
})

func TestC19(t *testing.T) {
	ev := newEv(t, "C19")
	ev.replayTier(t)
	t.Run("repeat_on_multi_member_objects", func(t *testing.T) {
		b := ev.enum(t)
		paths := []string{`exists($.*.double())`, `$.*.double()`, `$ ? (exists(@.*.double()))`, `$.*.datetime()`, `$.** ? (@.integer() > 0)`, `$.*.a`, `strict $.*.a`, `$.* > 1`, `strict $.* > 1`, `$.*.abs()`, `$.**.size()`,
			`$.* starts with "x"`, `$.**{1 to last}.double()`, `$.*[0]`, `strict $.*[0]`, `($.* == 1) is unknown`, `$.*.keyvalue().key`, `$.* ? (@.type() == "string").integer()`, `$.*.string().number()`,
			// .keyvalue() walks the members of an object too - in existence mode as well as with a result list
			`exists($.keyvalue().value.double())`, `$.keyvalue().value.double()`, `$ ? (exists(@.keyvalue().value.integer()))`, `$.keyvalue().value.datetime()`, `($.keyvalue().value > 1) is unknown`, `$.keyvalue() ? (@.value.double() > 0).key`, `$.*.keyvalue().value.abs()`, `strict $.keyvalue().value.a`,
			// objects below the first level of a recursive descent (their members are listed by code of their own)
			`$.**{2}.double()`, `exists($.**{2 to last}.double())`, `$.**{3}.double()`, `$.**{2 to 3} ? (@.type() != "object" && @.type() != "array").integer()`, `strict $.**{2}.abs()`, `$ ? (exists(@.**{2}.double()))`, `($.**{2} > 0) is unknown`, `$.**{2 to last}.datetime()`}
		docs := []string{`{"a":1,"b":"x"}`, `{"b":"x","a":1,"c":[1],"d":{"a":2}}`, `{"k1":"2015-08-01","k2":1,"k3":"12:00:00","k4":null}`, `{"a":{"a":1,"b":"x"},"b":{"a":"x","b":1}}`, `[{"a":1,"b":"x"},{"a":"x","b":1}]`, `{"x":"xa","y":1,"z":["xb"]}`,
			`{"p":{"q":{"a":1,"b":"x","c":"2015-08-01"},"r":{"a":"x","b":1}}}`, `[[{"a":1,"b":"x"}],[{"a":"x","b":1}]]`}
		i := 0
		for _, p := range paths {
			for _, d := range docs {
				i++
				if !mine(i) {
					continue
				}
				c := RepeatCase{Path: p, Doc: d, Rounds: 40}
				ev.Eval("repeat"+p+d, true)
				ev.Sample("repeat", c)
				if !b.Check("c19.repeat", c, checkRepeat(c)) {
					return
				}
			}
		}
		ev.Exhaustive("order_sensitive_paths_by_multi_member_documents_x40", int64(i))
	})
	t.Run("zone_storm", func(t *testing.T) {
		b := ev.enum(t)
		rounds := 1500
		if thorough() {
			rounds = 20000
		}
		all := []string{"UTC", "America/New_York", "Australia/Sydney", "Asia/Kolkata", "Asia/Tokyo", "America/Los_Angeles", "America/Sao_Paulo", "Europe/Paris", "Pacific/Auckland", "Asia/Kathmandu"}
		// each shard takes a different window of zones and set of paths
		sh := shard()
		zones := append([]string{}, all[sh%len(all):]...)
		zones = append(zones, all[:sh%len(all)]...)
		zones = zones[:6+sh%3]
		c := StormCase{Zones: zones, Rounds: rounds, PerZ: 2, Doc: `{"s":"2023-08-15 12:34:56","d":"2023-01-15","ts":["2023-08-15T12:34:56+05:30","2023-02-01T01:00:00-08:00"],"t":"12:34:56"}`,
			Paths: [][]string{
				{`$.s.timestamp_tz().string()`, `$.s.timestamp_tz() < "2023-08-15T12:00:00+00:00".timestamp_tz()`, `$.d.date().timestamp_tz().string()`},
				{`$.ts[*].timestamp().string()`, `$.d.timestamp_tz().string()`, `$.ts[*].date().string()`, `$.s.datetime() == $.ts[0].datetime()`},
				{`$.s.timestamp_tz().time_tz().string()`, `$.ts[*].timestamp_tz().timestamp().string()`, `$.d.datetime() < $.ts[1].datetime()`},
				{`$.s.timestamp_tz().string()`, `$.ts[*].time().string()`, `$.s.timestamp().timestamp_tz().date().string()`},
			}[sh%4]}
		key, _ := json.Marshal(c)
		ev.Eval("storm"+string(key), true)
		ev.Sample("zone_storm", c)
		ev.Label("zone_storm")
		b.Check("c19.zone_storm", c, checkStorm(c))
	})
	ev.rapidProp(t, "alias", func(rt *rapid.T) {
		gcfg := GenCfg{MaxNodes: 8, HardErrPct: 5}
		pick := func(l string) string {
			if rapid.Bool().Draw(rt, l+"pool") {
				return concBasePool[rapid.IntRange(0, len(concBasePool)-1).Draw(rt, l+"idx")]
			}
			return GenPath(rt, gcfg).Canon()
		}
		c := AliasCase{T2: pick("t"), U2: pick("u"), Doc: concDocs[rapid.IntRange(0, len(concDocs)-1).Draw(rt, "doc")], How: rapid.SampledFrom([]string{"Scan", "UnmarshalText", "UnmarshalBinary"}).Draw(rt, "how")}
		key, _ := json.Marshal(c)
		ev.Eval("alias"+string(key), c.T2 != c.U2)
		ev.Sample("alias", c)
		ev.Check(rt, "c19.alias", c, checkAlias(c))
	})
	ev.rapidProp(t, "vars", func(rt *rapid.T) {
		paths := []string{`$x`, `$y`, `$x[*] ? (@ > $y)`, `$.a[*] ? (@.c == $y)`, `$z`, `$x.size() + $y`, `exists($z)`, `$w`, `$y == 1 || $w == 1`}
		vals := []string{`1`, `[1,2,3]`, `"a"`, `{"a":1}`, `null`}
		mk := func(l string) map[string]string {
			m := map[string]string{}
			for _, n := range []string{"x", "y", "z", "w"} {
				if rapid.IntRange(0, 2).Draw(rt, l+n) > 0 {
					m[n] = vals[rapid.IntRange(0, len(vals)-1).Draw(rt, l+n+"v")]
				}
			}
			return m
		}
		c := VarsCase{Path: paths[rapid.IntRange(0, len(paths)-1).Draw(rt, "path")], Doc: concDocs[rapid.IntRange(0, len(concDocs)-1).Draw(rt, "doc")], V1: mk("a"), V2: mk("b")}
		key, _ := json.Marshal(c)
		ev.Eval("vars"+string(key), len(c.V1) > 0 && len(c.V2) > 0)
		ev.Sample("vars", c)
		ev.Check(rt, "c19.vars", c, checkVarsShared(c))
	})
	lastFile := filepath.Join(replayDir(), fmt.Sprintf("C19-last-scenario-s%d.json", shard()))
	ev.rapidProp(t, "scenarios", func(rt *rapid.T) {
		var sc ConcScenario
		n := rapid.IntRange(4, 12).Draw(rt, "npaths")
		gcfg := GenCfg{MaxNodes: 12, HardErrPct: 5}
		for i := 0; i < n; i++ {
			if rapid.IntRange(0, 9).Draw(rt, "pool") < 6 {
				sc.Paths = append(sc.Paths, concBasePool[rapid.IntRange(0, len(concBasePool)-1).Draw(rt, "poolidx")])
			} else {
				sc.Paths = append(sc.Paths, GenPath(rt, gcfg).Canon())
			}
		}
		sc.Docs = append(sc.Docs, concDocs...)
		sc.Docs = append(sc.Docs, GenDoc(rt, DocCfg{Rich: true}, "doc").Text())
		sc.Vars = map[string]string{"x": `[1,2,3]`, "y": `1`, "z": GenDoc(rt, DocCfg{MaxDepth: 2}, "z").Text()}
		sc.UseNumber = rapid.Bool().Draw(rt, "num")
		sc.Zone = rapid.SampledFrom([]string{"", "UTC", "+05:30", "America/New_York"}).Draw(rt, "zone")
		g := rapid.IntRange(2, 16).Draw(rt, "goroutines")
		if rapid.Bool().Draw(rt, "mixedzones") {
			// every goroutine works in its own context zone
			zs := []string{"", "UTC", "+05:30", "America/New_York", "-12:00", "Australia/Sydney", "-05:00", "+10:00"}
			for gi := 0; gi < g; gi++ {
				sc.Zones = append(sc.Zones, zs[rapid.IntRange(0, len(zs)-1).Draw(rt, "gzone")])
			}
		}
		kinds := []string{"Query", "Query", "First", "Exists", "Match", "String", "Parse"}
		hot := rapid.IntRange(0, n-1).Draw(rt, "hotpath") // several goroutines hammer the same path
		for gi := 0; gi < g; gi++ {
			m := rapid.IntRange(5, 50).Draw(rt, "calls")
			var ops []ConcOp
			for i := 0; i < m; i++ {
				pi := hot
				if rapid.IntRange(0, 9).Draw(rt, "other") < 5 {
					pi = rapid.IntRange(0, n-1).Draw(rt, "pi")
				}
				ops = append(ops, ConcOp{Path: pi, Doc: rapid.IntRange(0, len(sc.Docs)-1).Draw(rt, "di"), Kind: kinds[rapid.IntRange(0, len(kinds)-1).Draw(rt, "kind")],
					Silent: rapid.IntRange(0, 3).Draw(rt, "silent") == 0, Yield: rapid.IntRange(0, 4).Draw(rt, "yield") == 0})
			}
			sc.Goroutines = append(sc.Goroutines, ops)
		}
		// keep the scenario on disk while it runs: a race report cannot name it
		if b, err := json.Marshal(replayFile{Property: "C19", Check: "c19.scenario", Message: "scenario that was running when the race detector reported", Data: mustJSON(sc)}); err == nil {
			_ = os.MkdirAll(filepath.Dir(lastFile), 0o755)
			_ = os.WriteFile(lastFile, b, 0o644)
		}
		kindsSeen := map[string]bool{}
		for _, p := range sc.Paths {
			if pp, err := path.Parse(p); err == nil {
				for _, k := range nodeKinds(PathFromAST(pp.AST).Root) {
					kindsSeen[k] = true
				}
			}
		}
		key, _ := json.Marshal(sc)
		ev.Eval(string(key), g >= 2 && len(kindsSeen) >= 5)
		ev.Label(fmt.Sprintf("goroutines:%d", (g+3)/4*4))
		ev.Sample("scenario", map[string]any{"paths": sc.Paths, "goroutines": g, "calls_first_goroutine": len(sc.Goroutines[0])})
		ev.Check(rt, "c19.scenario", sc, checkConc(sc))
	})
	if !t.Failed() {
		_ = os.Remove(lastFile)
	}
}

func mustJSON(v any) json.RawMessage {
	b, _ := json.Marshal(v)
	return b
}
