package checks

// C19 — a parsed Path is immutable, concurrency-safe and deterministic.
// Run under the race detector (the driver builds this check with -race).

import (
	"encoding/json"
	"fmt"
	"os"
	"path/filepath"
	"runtime"
	"strings"
	"sync"
	"testing"

	"github.com/theory/sqljson/path"
	"pgregory.net/rapid"
)

// ConcOp is one call made by one goroutine.
type ConcOp struct {
	Path   int    `json:"path"`
	Doc    int    `json:"doc"`
	Kind   string `json:"kind"` // Query | First | Exists | Match | String | Parse
	Silent bool   `json:"silent,omitempty"`
	Yield  bool   `json:"yield,omitempty"` // runtime.Gosched() before the call
}

// ConcScenario: shared paths, documents and variables; per-goroutine op lists.
type ConcScenario struct {
	Paths      []string          `json:"paths"`
	Docs       []string          `json:"docs"`
	Vars       map[string]string `json:"vars"`
	UseNumber  bool              `json:"use_number,omitempty"`
	Zone       string            `json:"zone,omitempty"`
	Goroutines [][]ConcOp        `json:"goroutines"`
}

var concBasePool = []string{
	`$.a[*] ? (@.b like_regex "^a" flag "i")`, `$.** ? (@ like_regex "b$")`, `$.s.datetime()`, `$.t.timestamp_tz().string()`, `$.d.date() < $.t.datetime()`,
	`$.a.keyvalue()`, `$.keyvalue().key`, `$x[*] ? (@ > $y)`, `$.a[*] ? (exists(@.c ? (@ > $y)))`, `strict $.**.b`, `$.a[last].b`, `$.a[0 to last].size()`,
	`($.a[*].b starts with "a") is unknown`, `-$.n`, `$.n * 2 + 1`, `$.n.decimal(5,2)`, `$.a[*].b.string().type()`, `$.a ? (@[*].c > 1 && !(@[*].c > 5))`, `$x.size() == 3`, `strict $.nokey`,
	`$.t.time_tz(2)`, `$.n.double() / 0`, `$[*]`, `$.a[*].c ? (@.type() == "number").abs()`,
}

var concDocs = []string{
	`{"a":[{"b":"ab","c":1},{"b":"Ax","c":[2,7]},{"b":null}],"s":"2015-08-01","t":"2015-08-01T12:34:56+05:30","d":"2015-08-02","n":-2.5}`,
	`[1,"a",null,[2,3],{"a":1}]`,
	`{"a":{"b":1},"n":"x"}`,
}

type concResult struct {
	class string
	items []string
	boolv bool
	text  string
}

func (r concResult) String() string {
	return fmt.Sprintf("class=%s items=%v bool=%v text=%q", r.class, r.items, r.boolv, r.text)
}

func runConcOp(op ConcOp, paths []*path.Path, texts []string, docs []any, o Opts, vars map[string]any) (res concResult) {
	defer func() {
		if r := recover(); r != nil {
			res = concResult{class: EPanic, text: fmt.Sprint(r)}
		}
	}()
	p := paths[op.Path]
	opts := o
	opts.Silent = op.Silent
	eo := opts.Options(vars)
	ctx := opts.Ctx()
	switch op.Kind {
	case "Query":
		out := RunQuery(ctx, p, docs[op.Doc], eo...)
		return concResult{class: out.Class + out.Panic, items: RenderSeq(out.Items, false)}
	case "First":
		out := RunFirst(ctx, p, docs[op.Doc], eo...)
		return concResult{class: out.Class + out.Panic, text: Render(out.Item, false)}
	case "Exists":
		out := RunExists(ctx, p, docs[op.Doc], eo...)
		return concResult{class: out.Class + out.Panic, boolv: out.Bool}
	case "Match":
		out := RunMatch(ctx, p, docs[op.Doc], eo...)
		return concResult{class: out.Class + out.Panic, boolv: out.Bool}
	case "String":
		return concResult{class: EOK, text: p.String()}
	default: // Parse
		q, err := path.Parse(texts[op.Path])
		if err != nil {
			return concResult{class: "parse-error", text: err.Error()}
		}
		return concResult{class: EOK, text: q.String()}
	}
}

var checkConc = register("c19.scenario", func(c ConcScenario) *Violation {
	// two instances of every path: one only for analysis and for the isolated
	// reference runs, a fresh one (never touched before) for the concurrent
	// phase, so that lazily initialised state cannot be warmed up beforehand
	var refPaths, paths []*path.Path
	var trees []*Path
	for _, t := range c.Paths {
		p, err := path.Parse(t)
		if err != nil {
			return nil
		}
		q, err := path.Parse(t)
		if err != nil {
			return nil
		}
		refPaths = append(refPaths, p)
		paths = append(paths, q)
		trees = append(trees, PathFromAST(p.AST))
	}
	var docs []any
	for _, d := range c.Docs {
		v, err := Decode(d, c.UseNumber)
		if err != nil {
			return nil
		}
		docs = append(docs, v)
	}
	o := Opts{TZ: true, Zone: c.Zone, UseNumber: c.UseNumber, Vars: c.Vars, HasVars: true}
	varsTyped := o.VarsValue()
	vars := map[string]any(varsTyped)
	docCopies, varsCopy := deepCopy(any(docs)), deepCopy(varsTyped)
	// expected: every distinct call executed alone, beforehand
	type key struct {
		p, d   int
		kind   string
		silent bool
	}
	want := map[key]concResult{}
	for _, g := range c.Goroutines {
		for _, op := range g {
			k := key{op.Path, op.Doc, op.Kind, op.Silent}
			if _, ok := want[k]; !ok {
				want[k] = runConcOp(op, refPaths, c.Paths, docs, o, vars)
			}
		}
	}
	// concurrent run
	got := make([][]concResult, len(c.Goroutines))
	var wg sync.WaitGroup
	start := make(chan struct{})
	for gi, g := range c.Goroutines {
		got[gi] = make([]concResult, len(g))
		wg.Add(1)
		go func(gi int, g []ConcOp) {
			defer wg.Done()
			<-start
			for i, op := range g {
				if op.Yield {
					runtime.Gosched()
				}
				got[gi][i] = runConcOp(op, paths, c.Paths, docs, o, vars)
			}
		}(gi, g)
	}
	close(start)
	wg.Wait()
	for gi, g := range c.Goroutines {
		for i, op := range g {
			w, r := want[key{op.Path, op.Doc, op.Kind, op.Silent}], got[gi][i]
			open := orderOpen(trees[op.Path].Root, docs[op.Doc], varsTyped)
			chainedKV := strings.Count(c.Paths[op.Path], "keyvalue()") >= 2
			at := fmt.Sprintf("goroutine %d call %d: %s(%q, doc %d, silent=%v)", gi, i, op.Kind, c.Paths[op.Path], op.Doc, op.Silent)
			if strings.Contains(r.class, EPanic) {
				return violf("%s panicked when run concurrently: %s", at, r.text)
			}
			if open && (w.class != r.class || op.Silent || hasPredicate(trees[op.Path].Root)) {
				// which error is met first, and what a silent run collected before it, depends on the member order
				continue
			}
			same := w.class == r.class && w.boolv == r.boolv
			if same && !chainedKV {
				if open {
					same = sameMultiset(w.items, r.items)
					if op.Kind == "First" {
						same = true
					}
				} else {
					same = sameSeq(w.items, r.items) && w.text == r.text
				}
			}
			if !same {
				return violf("%s returned %s when run concurrently, but %s when run alone", at, r, w)
			}
		}
	}
	// repeating the calls after this history, alone, on the paths the goroutines used
	for k, w := range want {
		op := ConcOp{Path: k.p, Doc: k.d, Kind: k.kind, Silent: k.silent}
		r := runConcOp(op, paths, c.Paths, docs, o, vars)
		open := orderOpen(trees[k.p].Root, docs[k.d], varsTyped)
		if open || strings.Count(c.Paths[k.p], "keyvalue()") >= 2 {
			continue
		}
		_ = hasPredicate
		if w.class != r.class || w.boolv != r.boolv || !sameSeq(w.items, r.items) || w.text != r.text {
			return violf("%s(%q, doc %d) returns %s after the concurrent history, but %s on a fresh Path", k.kind, c.Paths[k.p], k.d, r, w)
		}
	}
	if !deepEqualJSON(docCopies, any(docs)) {
		return violf("a shared document was modified by concurrent calls")
	}
	if !deepEqualJSON(varsCopy, varsTyped) {
		return violf("the shared variables map was modified by concurrent calls")
	}
	return nil
})

func TestC19(t *testing.T) {
	ev := newEv(t, "C19")
	ev.replayTier(t)
	lastFile := filepath.Join(replayDir(), fmt.Sprintf("C19-last-scenario-s%d.json", shard()))
	ev.rapidProp(t, "scenarios", func(rt *rapid.T) {
		var sc ConcScenario
		n := rapid.IntRange(4, 12).Draw(rt, "npaths")
		gcfg := GenCfg{MaxNodes: 12, HardErrPct: 5}
		for i := 0; i < n; i++ {
			if rapid.IntRange(0, 9).Draw(rt, "pool") < 6 {
				sc.Paths = append(sc.Paths, concBasePool[rapid.IntRange(0, len(concBasePool)-1).Draw(rt, "poolidx")])
			} else {
				sc.Paths = append(sc.Paths, GenPath(rt, gcfg).Canon())
			}
		}
		sc.Docs = append(sc.Docs, concDocs...)
		sc.Docs = append(sc.Docs, GenDoc(rt, DocCfg{Rich: true}, "doc").Text())
		sc.Vars = map[string]string{"x": `[1,2,3]`, "y": `1`, "z": GenDoc(rt, DocCfg{MaxDepth: 2}, "z").Text()}
		sc.UseNumber = rapid.Bool().Draw(rt, "num")
		sc.Zone = rapid.SampledFrom([]string{"", "UTC", "+05:30", "America/New_York"}).Draw(rt, "zone")
		g := rapid.IntRange(2, 16).Draw(rt, "goroutines")
		kinds := []string{"Query", "Query", "First", "Exists", "Match", "String", "Parse"}
		hot := rapid.IntRange(0, n-1).Draw(rt, "hotpath") // several goroutines hammer the same path
		for gi := 0; gi < g; gi++ {
			m := rapid.IntRange(5, 50).Draw(rt, "calls")
			var ops []ConcOp
			for i := 0; i < m; i++ {
				pi := hot
				if rapid.IntRange(0, 9).Draw(rt, "other") < 5 {
					pi = rapid.IntRange(0, n-1).Draw(rt, "pi")
				}
				ops = append(ops, ConcOp{Path: pi, Doc: rapid.IntRange(0, len(sc.Docs)-1).Draw(rt, "di"), Kind: kinds[rapid.IntRange(0, len(kinds)-1).Draw(rt, "kind")],
					Silent: rapid.IntRange(0, 3).Draw(rt, "silent") == 0, Yield: rapid.IntRange(0, 4).Draw(rt, "yield") == 0})
			}
			sc.Goroutines = append(sc.Goroutines, ops)
		}
		// keep the scenario on disk while it runs: a race report cannot name it
		if b, err := json.Marshal(replayFile{Property: "C19", Check: "c19.scenario", Message: "scenario that was running when the race detector reported", Data: mustJSON(sc)}); err == nil {
			_ = os.MkdirAll(filepath.Dir(lastFile), 0o755)
			_ = os.WriteFile(lastFile, b, 0o644)
		}
		kindsSeen := map[string]bool{}
		for _, p := range sc.Paths {
			if pp, err := path.Parse(p); err == nil {
				for _, k := range nodeKinds(PathFromAST(pp.AST).Root) {
					kindsSeen[k] = true
				}
			}
		}
		key, _ := json.Marshal(sc)
		ev.Eval(string(key), g >= 2 && len(kindsSeen) >= 5)
		ev.Label(fmt.Sprintf("goroutines:%d", (g+3)/4*4))
		ev.Sample("scenario", map[string]any{"paths": sc.Paths, "goroutines": g, "calls_first_goroutine": len(sc.Goroutines[0])})
		ev.Check(rt, "c19.scenario", sc, checkConc(sc))
	})
	if !t.Failed() {
		_ = os.Remove(lastFile)
	}
}

func mustJSON(v any) json.RawMessage {
	b, _ := json.Marshal(v)
	return b
}
