package checks

// Abstract path: the harness' own tree type for SQL/JSON paths, mirroring what
// the grammar produces after its documented normalisations. It is the common
// currency of the generators, the spelling functions, the tree comparison
// (through the exported ast accessors only) and the reference model.

import (
	"fmt"
	"math"
	"regexp"
	"strconv"
	"strings"

	"github.com/theory/sqljson/path/ast"
)

// Node kinds.
const (
	KRoot      = "$"
	KCur       = "@"
	KLast      = "last"
	KVar       = "var"
	KStr       = "str"
	KInt       = "int"
	KNum       = "num"
	KTrue      = "true"
	KFalse     = "false"
	KNull      = "null"
	KKey       = "key"
	KAnyKey    = ".*"
	KAnyArr    = "[*]"
	KAny       = "**"
	KIdx       = "idx"
	KFilter    = "?"
	KMethod    = "method"
	KDecimal   = "decimal"
	KDT        = "dt"
	KBin       = "bin"
	KUn        = "un" // + - !
	KExists    = "exists"
	KIsUnknown = "isunknown"
	KRegex     = "regex"
)

// Sub is one array subscript: a single index or a range.
type Sub struct {
	From *Node `json:"from"`
	To   *Node `json:"to,omitempty"`
}

// Node is one abstract path node; Next links the accessor chain.
type Node struct {
	K     string  `json:"k"`
	S     string  `json:"s,omitempty"`     // key/var/string text, method or dt-method name, operator, regex pattern
	I     int64   `json:"i,omitempty"`     // integer literal
	F     float64 `json:"f,omitempty"`     // numeric literal
	Flags string  `json:"flags,omitempty"` // regex flags as written
	A     *Node   `json:"a,omitempty"`
	B     *Node   `json:"b,omitempty"`
	Subs  []Sub   `json:"subs,omitempty"`
	First int64   `json:"first,omitempty"` // .** bounds; -1 = last / unbounded
	Last  int64   `json:"last,omitempty"`
	Next  *Node   `json:"next,omitempty"`
}

// Path is a complete abstract path.
type Path struct {
	Strict bool  `json:"strict,omitempty"`
	Root   *Node `json:"root"`
}

// ---------------------------------------------------------------------------
// classification helpers

var (
	cmpOps   = []string{"==", "!=", "<", "<=", ">", ">="}
	arithOps = []string{"+", "-", "*", "/", "%"}
)

func isCmpOp(s string) bool {
	switch s {
	case "==", "!=", "<", "<=", ">", ">=":
		return true
	}
	return false
}

func isArithOp(s string) bool {
	switch s {
	case "+", "-", "*", "/", "%":
		return true
	}
	return false
}

// IsPred reports whether n (ignoring its chain) is a predicate node.
func (n *Node) IsPred() bool {
	switch n.K {
	case KBin:
		return !isArithOp(n.S)
	case KUn:
		return n.S == "!"
	case KExists, KIsUnknown, KRegex:
		return true
	}
	return false
}

// IsAccessor reports whether n can appear after the head of a chain.
func (n *Node) IsAccessor() bool {
	switch n.K {
	case KKey, KAnyKey, KAnyArr, KAny, KIdx, KFilter, KMethod, KDecimal, KDT:
		return true
	}
	return false
}

// chainEnd returns the last node of n's chain.
func (n *Node) chainEnd() *Node {
	for n.Next != nil {
		n = n.Next
	}
	return n
}

// Walk calls f for every node of the tree (operands, subscripts and chains).
func (n *Node) Walk(f func(*Node)) {
	if n == nil {
		return
	}
	f(n)
	n.A.Walk(f)
	n.B.Walk(f)
	for _, s := range n.Subs {
		s.From.Walk(f)
		s.To.Walk(f)
	}
	n.Next.Walk(f)
}

// Count returns the number of nodes in the tree.
func (n *Node) Count() int {
	c := 0
	n.Walk(func(*Node) { c++ })
	return c
}

// Has reports whether some node satisfies p.
func (n *Node) Has(p func(*Node) bool) bool {
	found := false
	n.Walk(func(x *Node) {
		if p(x) {
			found = true
		}
	})
	return found
}

// Clone makes a deep copy.
func (n *Node) Clone() *Node {
	if n == nil {
		return nil
	}
	c := *n
	c.A = n.A.Clone()
	c.B = n.B.Clone()
	c.Next = n.Next.Clone()
	if n.Subs != nil {
		c.Subs = make([]Sub, len(n.Subs))
		for i, s := range n.Subs {
			c.Subs[i] = Sub{From: s.From.Clone(), To: s.To.Clone()}
		}
	}
	return &c
}

// ---------------------------------------------------------------------------
// AST -> abstract path, through exported accessors only

func methodName(m ast.MethodName) string {
	s := m.String() // ".abs()"
	s = strings.TrimPrefix(s, ".")
	return strings.TrimSuffix(s, "()")
}

// FromAST converts the parser's tree.
func FromAST(n ast.Node) *Node {
	if n == nil {
		return nil
	}
	var out *Node
	switch n := n.(type) {
	case *ast.ConstNode:
		switch n.Const() {
		case ast.ConstRoot:
			out = &Node{K: KRoot}
		case ast.ConstCurrent:
			out = &Node{K: KCur}
		case ast.ConstLast:
			out = &Node{K: KLast}
		case ast.ConstAnyArray:
			out = &Node{K: KAnyArr}
		case ast.ConstAnyKey:
			out = &Node{K: KAnyKey}
		case ast.ConstTrue:
			out = &Node{K: KTrue}
		case ast.ConstFalse:
			out = &Node{K: KFalse}
		case ast.ConstNull:
			out = &Node{K: KNull}
		default:
			out = &Node{K: "?const", I: int64(n.Const())}
		}
	case *ast.MethodNode:
		out = &Node{K: KMethod, S: methodName(n.Name())}
	case *ast.StringNode:
		out = &Node{K: KStr, S: n.Text()}
	case *ast.VariableNode:
		out = &Node{K: KVar, S: n.Text()}
	case *ast.KeyNode:
		out = &Node{K: KKey, S: n.Text()}
	case *ast.NumericNode:
		out = &Node{K: KNum, F: n.Float()}
	case *ast.IntegerNode:
		out = &Node{K: KInt, I: n.Int()}
	case *ast.AnyNode:
		out = &Node{K: KAny, First: anyBound(n.First()), Last: anyBound(n.Last())}
	case *ast.BinaryNode:
		switch n.Operator() {
		case ast.BinaryDecimal:
			out = &Node{K: KDecimal, A: FromAST(nilIfNil(n.Left())), B: FromAST(nilIfNil(n.Right()))}
		case ast.BinarySubscript:
			out = &Node{K: "?subscript", A: FromAST(nilIfNil(n.Left())), B: FromAST(nilIfNil(n.Right()))}
		default:
			out = &Node{K: KBin, S: n.Operator().String(), A: FromAST(n.Left()), B: FromAST(n.Right())}
		}
	case *ast.UnaryNode:
		switch n.Operator() {
		case ast.UnaryExists:
			out = &Node{K: KExists, A: FromAST(n.Operand())}
		case ast.UnaryNot:
			out = &Node{K: KUn, S: "!", A: FromAST(n.Operand())}
		case ast.UnaryIsUnknown:
			out = &Node{K: KIsUnknown, A: FromAST(n.Operand())}
		case ast.UnaryPlus:
			out = &Node{K: KUn, S: "+", A: FromAST(n.Operand())}
		case ast.UnaryMinus:
			out = &Node{K: KUn, S: "-", A: FromAST(n.Operand())}
		case ast.UnaryFilter:
			out = &Node{K: KFilter, A: FromAST(n.Operand())}
		default:
			out = &Node{K: KDT, S: strings.TrimPrefix(n.Operator().String(), "."), A: FromAST(nilIfNil(n.Operand()))}
		}
	case *ast.RegexNode:
		out = &Node{K: KRegex, A: FromAST(n.Operand()), S: n.Regexp().String(), I: 1}
	case *ast.ArrayIndexNode:
		out = &Node{K: KIdx}
		for _, s := range n.Subscripts() {
			b, ok := s.(*ast.BinaryNode)
			if !ok || b.Operator() != ast.BinarySubscript {
				out.Subs = append(out.Subs, Sub{From: &Node{K: "?badsub"}})
				continue
			}
			out.Subs = append(out.Subs, Sub{From: FromAST(nilIfNil(b.Left())), To: FromAST(nilIfNil(b.Right()))})
		}
	default:
		out = &Node{K: fmt.Sprintf("?%T", n)}
	}
	out.Next = FromAST(nilIfNil(n.Next()))
	return out
}

// nilIfNil turns a typed-nil interface into an untyped nil.
func nilIfNil(n ast.Node) ast.Node {
	if n == nil {
		return nil
	}
	switch v := n.(type) {
	case *ast.ConstNode:
		if v == nil {
			return nil
		}
	case *ast.MethodNode:
		if v == nil {
			return nil
		}
	case *ast.StringNode:
		if v == nil {
			return nil
		}
	case *ast.VariableNode:
		if v == nil {
			return nil
		}
	case *ast.KeyNode:
		if v == nil {
			return nil
		}
	case *ast.NumericNode:
		if v == nil {
			return nil
		}
	case *ast.IntegerNode:
		if v == nil {
			return nil
		}
	case *ast.AnyNode:
		if v == nil {
			return nil
		}
	case *ast.BinaryNode:
		if v == nil {
			return nil
		}
	case *ast.UnaryNode:
		if v == nil {
			return nil
		}
	case *ast.RegexNode:
		if v == nil {
			return nil
		}
	case *ast.ArrayIndexNode:
		if v == nil {
			return nil
		}
	}
	return n
}

func anyBound(u uint32) int64 {
	if u == math.MaxUint32 {
		return -1
	}
	return int64(u)
}

// PathFromAST converts a whole parsed path.
func PathFromAST(a *ast.AST) *Path {
	return &Path{Strict: !a.IsLax(), Root: FromAST(a.Root())}
}

// ---------------------------------------------------------------------------
// regex: the compiled form the documented flag translation prescribes

// goRegexSource is the harness' statement of the documented translation:
// i, s, m map to the Go flags of the same name, q quotes the pattern (and
// makes s and m irrelevant).
func goRegexSource(pattern, flags string) string {
	var i, s, m, q bool
	for _, f := range flags {
		switch f {
		case 'i':
			i = true
		case 's':
			s = true
		case 'm':
			m = true
		case 'q':
			q = true
		}
	}
	fl := ""
	if i {
		fl += "i"
	}
	if !q {
		if s {
			fl += "s"
		}
		if m {
			fl += "m"
		}
	}
	if fl != "" {
		fl = "(?" + fl + ")"
	}
	if q {
		return fl + regexp.QuoteMeta(pattern)
	}
	return fl + pattern
}

// ---------------------------------------------------------------------------
// equality

// Diff returns "" if the trees are equal, else a description of the first
// difference. Numbers compare by value, regexes by compiled form.
func Diff(a, b *Node) string { return diff(a, b, "root") }

func diff(a, b *Node, at string) string {
	if a == nil || b == nil {
		if a == b {
			return ""
		}
		return fmt.Sprintf("%s: %s vs %s", at, brief(a), brief(b))
	}
	if a.K != b.K {
		return fmt.Sprintf("%s: kind %s vs %s", at, brief(a), brief(b))
	}
	switch a.K {
	case KVar, KStr, KKey, KMethod, KDT, KBin, KUn:
		if a.S != b.S {
			return fmt.Sprintf("%s: %s %q vs %q", at, a.K, a.S, b.S)
		}
	case KRegex:
		if a.regexSource() != b.regexSource() {
			return fmt.Sprintf("%s: regex %q vs %q", at, a.regexSource(), b.regexSource())
		}
	case KInt:
		if a.I != b.I {
			return fmt.Sprintf("%s: int %d vs %d", at, a.I, b.I)
		}
	case KNum:
		if a.F != b.F {
			return fmt.Sprintf("%s: num %v vs %v", at, a.F, b.F)
		}
	case KAny:
		if a.First != b.First || a.Last != b.Last {
			return fmt.Sprintf("%s: ** {%d to %d} vs {%d to %d}", at, a.First, a.Last, b.First, b.Last)
		}
	case KIdx:
		if len(a.Subs) != len(b.Subs) {
			return fmt.Sprintf("%s: %d vs %d subscripts", at, len(a.Subs), len(b.Subs))
		}
		for i := range a.Subs {
			if d := diff(a.Subs[i].From, b.Subs[i].From, fmt.Sprintf("%s[%d].from", at, i)); d != "" {
				return d
			}
			if d := diff(a.Subs[i].To, b.Subs[i].To, fmt.Sprintf("%s[%d].to", at, i)); d != "" {
				return d
			}
		}
	}
	if d := diff(a.A, b.A, at+".A"); d != "" {
		return d
	}
	if d := diff(a.B, b.B, at+".B"); d != "" {
		return d
	}
	return diff(a.Next, b.Next, at+">")
}

// regexSource: nodes built by FromAST carry the compiled source in S with
// empty Flags and the marker I=1; generated nodes carry pattern + flags.
func (n *Node) regexSource() string {
	if n.I == 1 {
		return n.S
	}
	return goRegexSource(n.S, n.Flags)
}

func brief(n *Node) string {
	if n == nil {
		return "<nil>"
	}
	switch n.K {
	case KInt:
		return fmt.Sprintf("int(%d)", n.I)
	case KNum:
		return fmt.Sprintf("num(%v)", n.F)
	case KStr, KVar, KKey, KMethod, KDT, KBin, KUn:
		return fmt.Sprintf("%s(%s)", n.K, n.S)
	}
	return n.K
}

// ---------------------------------------------------------------------------
// normal form of a surface tree (what the grammar's actions fold)

// Normalize returns the tree the parser is documented to build for a surface
// tree: a unary sign applied to a numeric literal without accessor chain folds
// into the literal (README: "-1" is the number, "-$.a" the operator).
func Normalize(n *Node) *Node {
	if n == nil {
		return nil
	}
	c := *n
	c.A = Normalize(n.A)
	c.B = Normalize(n.B)
	c.Next = Normalize(n.Next)
	if n.Subs != nil {
		c.Subs = make([]Sub, len(n.Subs))
		for i, s := range n.Subs {
			c.Subs[i] = Sub{From: Normalize(s.From), To: Normalize(s.To)}
		}
	}
	if c.K == KUn && (c.S == "+" || c.S == "-") && c.A != nil && c.A.Next == nil {
		switch c.A.K {
		case KInt:
			v := c.A.I
			if c.S == "-" {
				v = -v
			}
			return &Node{K: KInt, I: v, Next: c.Next}
		case KNum:
			v := c.A.F
			if c.S == "-" {
				v = -v
			}
			return &Node{K: KNum, F: v, Next: c.Next}
		}
	}
	return &c
}

// ---------------------------------------------------------------------------
// canonical (minimal-risk) spelling

// QuoteJP quotes s as a jsonpath string literal using only escapes the
// documented syntax defines: \" \\ and \uXXXX for C0 controls and DEL.
func QuoteJP(s string) string {
	var b strings.Builder
	b.WriteByte('"')
	for _, r := range s {
		switch {
		case r == '"':
			b.WriteString(`\"`)
		case r == '\\':
			b.WriteString(`\\`)
		case r < 0x20 || r == 0x7f:
			fmt.Fprintf(&b, `\u%04x`, r)
		default:
			b.WriteRune(r)
		}
	}
	b.WriteByte('"')
	return b.String()
}

// FormatNum spells a float64 as a jsonpath numeric literal (always with a
// '.' or exponent so that it lexes as NUMERIC, never as INT).
func FormatNum(f float64) string {
	s := strconv.FormatFloat(math.Abs(f), 'g', -1, 64)
	if !strings.ContainsAny(s, ".e") {
		s += ".0"
	}
	if f < 0 || (f == 0 && math.Signbit(f)) {
		s = "-" + s
	}
	return s
}

// Canon spells the path with explicit parentheses around every nested
// operator, quoted keys and variables: a spelling whose parse is not in doubt.
func (p *Path) Canon() string {
	s := ""
	if p.Strict {
		s = "strict "
	}
	if p.Root.IsPred() && p.Root.Next == nil {
		return s + canonPred(p.Root)
	}
	return s + canonExpr(p.Root, true)
}

func canonChain(n *Node) string {
	var b strings.Builder
	for ; n != nil; n = n.Next {
		switch n.K {
		case KKey:
			b.WriteString("." + QuoteJP(n.S))
		case KAnyKey:
			b.WriteString(".*")
		case KAnyArr:
			b.WriteString("[*]")
		case KAny:
			b.WriteString("." + canonAny(n))
		case KIdx:
			b.WriteString("[")
			for i, s := range n.Subs {
				if i > 0 {
					b.WriteString(",")
				}
				b.WriteString(canonExpr(s.From, true))
				if s.To != nil {
					b.WriteString(" to " + canonExpr(s.To, true))
				}
			}
			b.WriteString("]")
		case KFilter:
			b.WriteString(" ?(" + canonPred(n.A) + ")")
		case KMethod:
			b.WriteString("." + n.S + "()")
		case KDecimal:
			b.WriteString(".decimal(")
			if n.A != nil {
				b.WriteString(strconv.FormatInt(n.A.I, 10))
				if n.B != nil {
					b.WriteString("," + strconv.FormatInt(n.B.I, 10))
				}
			}
			b.WriteString(")")
		case KDT:
			b.WriteString("." + n.S + "(")
			if n.A != nil {
				if n.A.K == KStr {
					b.WriteString(QuoteJP(n.A.S))
				} else {
					b.WriteString(strconv.FormatInt(n.A.I, 10))
				}
			}
			b.WriteString(")")
		default:
			b.WriteString("<?" + n.K + ">")
		}
	}
	return b.String()
}

func canonAny(n *Node) string {
	lv := func(v int64) string {
		if v < 0 {
			return "last"
		}
		return strconv.FormatInt(v, 10)
	}
	switch {
	case n.First == 0 && n.Last == -1:
		return "**"
	case n.First == n.Last:
		return "**{" + lv(n.First) + "}"
	default:
		return "**{" + lv(n.First) + " to " + lv(n.Last) + "}"
	}
}

// canonExpr spells n as an expr. top says no enclosing operator needs
// protection from n's own operator.
func canonExpr(n *Node, top bool) string {
	head := ""
	needParenForChain := false
	switch n.K {
	case KRoot:
		head = "$"
	case KCur:
		head = "@"
	case KLast:
		head = "last"
	case KVar:
		head = "$" + QuoteJP(n.S)
	case KStr:
		head = QuoteJP(n.S)
	case KInt:
		head = strconv.FormatInt(n.I, 10)
		needParenForChain = true
		if n.I < 0 && !top {
			head = "(" + head + ")"
			needParenForChain = false
		}
	case KNum:
		head = FormatNum(n.F)
		needParenForChain = true
		if (n.F < 0 || math.Signbit(n.F)) && !top {
			head = "(" + head + ")"
			needParenForChain = false
		}
	case KTrue, KFalse, KNull:
		head = n.K
	case KBin:
		if isArithOp(n.S) {
			head = canonExpr(n.A, false) + " " + n.S + " " + canonExpr(n.B, false)
			if !top || n.Next != nil {
				head = "(" + head + ")"
			}
		} else {
			head = "(" + canonPred(n) + ")"
		}
	case KUn:
		if n.S == "!" {
			head = "(" + canonPred(n) + ")"
		} else {
			head = n.S + canonExpr(n.A, false)
			if !top || n.Next != nil {
				head = "(" + head + ")"
			}
		}
	case KExists, KIsUnknown, KRegex:
		head = "(" + canonPred(n) + ")"
	default:
		// a chain that starts with an accessor cannot be spelled
		head = "<?" + n.K + ">"
	}
	if n.Next != nil && needParenForChain {
		head = "(" + head + ")"
	}
	return head + canonChain(n.Next)
}

// canonPred spells a predicate node (its chain, if any, is not printed here).
func canonPred(n *Node) string {
	switch n.K {
	case KBin:
		switch {
		case n.S == "&&" || n.S == "||":
			return "(" + canonPredOrChain(n.A) + ") " + n.S + " (" + canonPredOrChain(n.B) + ")"
		case n.S == "starts with":
			return canonExpr(n.A, false) + " starts with " + canonExpr(n.B, true)
		default:
			return canonExpr(n.A, false) + " " + n.S + " " + canonExpr(n.B, false)
		}
	case KUn:
		return "!(" + canonPredOrChain(n.A) + ")"
	case KExists:
		return "exists(" + canonExpr(n.A, true) + ")"
	case KIsUnknown:
		return "(" + canonPredOrChain(n.A) + ") is unknown"
	case KRegex:
		s := canonExpr(n.A, false) + " like_regex " + QuoteJP(n.S)
		if n.Flags != "" {
			s += " flag " + QuoteJP(n.Flags)
		}
		return s
	}
	return "<?pred " + n.K + ">"
}

func canonPredOrChain(n *Node) string { return canonPred(n) }
