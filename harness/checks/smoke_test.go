package checks

import (
	"testing"

	"github.com/theory/sqljson/path"
	"pgregory.net/rapid"
)

func TestSmoke(t *testing.T) {
	rapid.Check(t, func(t *rapid.T) {
		_ = rapid.Int().Draw(t, "x")
		_, _ = path.Parse("$.a")
	})
}
