package checks

// C13 — arithmetic is exact or fails loudly.

import (
	"context"
	"encoding/json"
	"fmt"
	"math"
	"math/big"
	"strconv"
	"strings"
	"testing"

	"github.com/theory/sqljson/path/exec"
	"pgregory.net/rapid"
)

// Operand: a number in one of the three representations.
type Operand struct {
	Repr string `json:"repr"` // lit | f64 | num
	Text string `json:"text"`
}

// ArithCase: x op y (or op x when Y is nil).
type ArithCase struct {
	Op     string   `json:"op"`
	X      Operand  `json:"x"`
	Y      *Operand `json:"y,omitempty"`
	Strict bool     `json:"strict,omitempty"`
}

// num is the oracle's number: an int64 or a float64, as the documented
// conversion rules assign representations.
type onum struct {
	isInt bool
	i     int64
	f     float64
}

func (n onum) rat() *big.Rat {
	if n.isInt {
		return new(big.Rat).SetInt64(n.i)
	}
	return new(big.Rat).SetFloat64(n.f)
}

func (n onum) float() float64 {
	if n.isInt {
		return float64(n.i)
	}
	return n.f
}

func integerLooking(s string) bool {
	t := strings.TrimPrefix(s, "-")
	if t == "" {
		return false
	}
	for _, r := range t {
		if r < '0' || r > '9' {
			return false
		}
	}
	return true
}

// decodeOperand: literals and json.Numbers are integers when their text is an
// integer that fits int64, otherwise the nearest double; float64 documents are
// doubles.
func decodeOperand(o Operand) (onum, bool) {
	switch o.Repr {
	case "f64":
		f, err := strconv.ParseFloat(o.Text, 64)
		return onum{f: f}, err == nil
	case "lit":
		// an integer token is never negative: the sign is a separate token
		abs := strings.TrimPrefix(o.Text, "-")
		if integerLooking(abs) {
			if i, err := strconv.ParseInt(abs, 10, 64); err == nil {
				if strings.HasPrefix(o.Text, "-") {
					i = -i
				}
				return onum{isInt: true, i: i}, true
			}
		}
		f, err := strconv.ParseFloat(o.Text, 64)
		return onum{f: f}, err == nil
	default:
		if i, err := strconv.ParseInt(o.Text, 10, 64); err == nil {
			return onum{isInt: true, i: i}, true
		}
		f, err := strconv.ParseFloat(o.Text, 64)
		return onum{f: f}, err == nil
	}
}

func (o Operand) goValue() any {
	switch o.Repr {
	case "f64":
		f, _ := strconv.ParseFloat(o.Text, 64)
		return f
	case "num":
		return json.Number(o.Text)
	}
	return nil
}

func (o Operand) pathText(varName string) string {
	if o.Repr == "lit" {
		if strings.HasPrefix(o.Text, "-") {
			return "(" + o.Text + ")"
		}
		return o.Text
	}
	return "$" + varName
}

var maxInt64Rat = new(big.Rat).SetInt64(math.MaxInt64)
var minInt64Rat = new(big.Rat).SetInt64(math.MinInt64)

func fitsInt64(r *big.Rat) bool {
	return r.IsInt() && r.Cmp(maxInt64Rat) <= 0 && r.Cmp(minInt64Rat) >= 0
}

// arithOracle returns the accepted results (as exact rationals) or says that
// a suppressible error is required / also acceptable.
func arithOracle(op string, x, y onum) (accepted []*big.Rat, mustErr bool, mayErr bool) {
	floatRes := func() {
		var r float64
		a, b := x.float(), y.float()
		switch op {
		case "+":
			r = a + b
		case "-":
			r = a - b
		case "*":
			r = a * b
		case "/":
			r = a / b
		case "%":
			r = math.Mod(a, b)
		}
		if math.IsInf(r, 0) || math.IsNaN(r) {
			mustErr = true
			return
		}
		accepted = append(accepted, new(big.Rat).SetFloat64(r))
	}
	if (op == "/" || op == "%") && y.rat().Sign() == 0 {
		return nil, true, false
	}
	if x.isInt && y.isInt {
		a, b := x.rat(), y.rat()
		var exact *big.Rat
		switch op {
		case "+":
			exact = new(big.Rat).Add(a, b)
		case "-":
			exact = new(big.Rat).Sub(a, b)
		case "*":
			exact = new(big.Rat).Mul(a, b)
		case "/":
			q := new(big.Int).Quo(a.Num(), b.Num()) // truncated toward zero
			tq := new(big.Rat).SetInt(q)
			if fitsInt64(tq) {
				// the truncated quotient, or the exact one (as a double)
				accepted = append(accepted, tq)
				ex, _ := new(big.Rat).Quo(a, b).Float64()
				accepted = append(accepted, new(big.Rat).SetFloat64(ex))
				return accepted, false, false
			}
			// -2^63 / -1: does not fit
			floatRes()
			return accepted, mustErr, !mustErr
		case "%":
			r := new(big.Int).Rem(a.Num(), b.Num()) // sign of the dividend
			return []*big.Rat{new(big.Rat).SetInt(r)}, false, false
		}
		if fitsInt64(exact) {
			return []*big.Rat{exact}, false, false
		}
		// does not fit: the IEEE double result, or a (suppressible) error - never a wrapped integer
		floatRes()
		return accepted, mustErr, !mustErr
	}
	floatRes()
	return accepted, mustErr, false
}

type arithFacts struct {
	nontrivial bool
	class      string
}

var checkArith = register("c13.arith", func(c ArithCase) *Violation {
	v, _ := checkArithFacts(c)
	return v
})

func nearBoundary(n onum) bool {
	r := n.rat()
	for _, b := range []int64{math.MaxInt32, math.MinInt32, math.MaxInt64, math.MinInt64, 1 << 53, -(1 << 53)} {
		d := new(big.Rat).Sub(r, new(big.Rat).SetInt64(b))
		if d.Abs(d).Cmp(big.NewRat(2, 1)) <= 0 {
			return true
		}
	}
	return !r.IsInt()
}

func checkArithFacts(c ArithCase) (*Violation, arithFacts) {
	var f arithFacts
	x, okx := decodeOperand(c.X)
	if !okx {
		return nil, f
	}
	vars := exec.Vars{}
	if v := c.X.goValue(); v != nil {
		vars["a"] = v
	}
	mode := ""
	if c.Strict {
		mode = "strict "
	}
	run := func(text string) Outcome {
		p, err, pan := ParseSafe(text)
		if err != nil || pan != "" {
			return Outcome{Panic: fmt.Sprintf("harness: %q does not parse: %v %s", text, err, pan)}
		}
		return RunQuery(context.Background(), p, nil, exec.WithVars(vars))
	}
	valueOf := func(o Outcome) (*big.Rat, bool) {
		if o.Class != EOK || len(o.Items) != 1 {
			return nil, false
		}
		return numRat(o.Items[0])
	}
	if c.Y == nil {
		// unary
		text := mode + c.Op + c.X.pathText("a")
		got := run(text)
		if got.Panic != "" {
			return violf("%s panicked: %s", text, got.Panic), f
		}
		f.class = got.Class
		f.nontrivial = nearBoundary(x)
		want := x.rat()
		if c.Op == "-" {
			want = new(big.Rat).Neg(want)
		}
		mayErr := x.isInt && !fitsInt64(want)
		if r, ok := valueOf(got); ok {
			if r.Cmp(want) != 0 {
				// the only alternative: the nearest double of an int that does not fit
				if !(mayErr && r.Cmp(new(big.Rat).SetFloat64(-x.float())) == 0) {
					return violf("%s with a=%s returned %s, want %s", text, c.X.Text, r.RatString(), want.RatString()), f
				}
			}
		} else if !(mayErr && got.Class == ESupp) {
			return violf("%s with a=%s returned %s, want %s", text, c.X.Text, got, want.RatString()), f
		}
		// -(-x) = x and +x = x
		if c.Op == "-" {
			dbl := run(mode + "-(-" + c.X.pathText("a") + ")")
			if r, ok := valueOf(dbl); ok {
				if r.Cmp(x.rat()) != 0 {
					return violf("-(-x) != x for x=%s (%s): got %s", c.X.Text, c.X.Repr, r.RatString()), f
				}
			} else if !(mayErr && dbl.Class == ESupp) {
				return violf("-(-x) for x=%s (%s) returned %s", c.X.Text, c.X.Repr, dbl), f
			}
		}
		return nil, f
	}
	y, oky := decodeOperand(*c.Y)
	if !oky {
		return nil, f
	}
	if v := c.Y.goValue(); v != nil {
		vars["b"] = v
	}
	text := fmt.Sprintf("%s%s %s %s", mode, c.X.pathText("a"), c.Op, c.Y.pathText("b"))
	got := run(text)
	if got.Panic != "" {
		return violf("%s panicked: %s", text, got.Panic), f
	}
	f.class = got.Class
	accepted, mustErr, mayErr := arithOracle(c.Op, x, y)
	f.nontrivial = nearBoundary(x) || nearBoundary(y) || mustErr || mayErr
	at := fmt.Sprintf("%s with a=%s(%s) b=%s(%s)", text, c.X.Text, c.X.Repr, c.Y.Text, c.Y.Repr)
	switch {
	case mustErr:
		if got.Class != ESupp {
			return violf("%s: a suppressible error is required (division by zero or non-finite result) but got %s", at, got), f
		}
	case got.Class == ESupp && mayErr:
	default:
		r, ok := valueOf(got)
		if !ok {
			return violf("%s: want one of %v but got %s", at, ratStrings(accepted), got), f
		}
		found := false
		for _, a := range accepted {
			if a.Cmp(r) == 0 {
				found = true
			}
		}
		if !found {
			return violf("%s returned %s, accepted %v", at, r.RatString(), ratStrings(accepted)), f
		}
		if fl, isF := got.Items[0].(float64); isF && (math.IsInf(fl, 0) || math.IsNaN(fl)) {
			return violf("%s returned a non-finite number", at), f
		}
	}
	// an integer result is that integer, not a double that happens to print alike: one more exact
	// step from it stays exact (a double at the int64 limits or beyond 2^53 would absorb the 1)
	if x.isInt && y.isInt && c.Op != "/" && !mustErr {
		exact := new(big.Rat)
		switch c.Op {
		case "+":
			exact.Add(x.rat(), y.rat())
		case "-":
			exact.Sub(x.rat(), y.rat())
		case "*":
			exact.Mul(x.rat(), y.rat())
		default:
			exact.SetInt(new(big.Int).Rem(x.rat().Num(), y.rat().Num()))
		}
		if r, ok := valueOf(got); ok && fitsInt64(exact) && r.Cmp(exact) == 0 {
			for _, step := range []struct {
				op string
				d  int64
			}{{"+", 1}, {"-", 1}} {
				want := new(big.Rat).Add(r, big.NewRat(step.d, 1))
				if step.op == "-" {
					want = new(big.Rat).Sub(r, big.NewRat(step.d, 1))
				}
				if !fitsInt64(want) {
					continue
				}
				t2 := fmt.Sprintf("%s(%s %s %s) %s 1", mode, c.X.pathText("a"), c.Op, c.Y.pathText("b"), step.op)
				g2 := run(t2)
				if r2, ok2 := valueOf(g2); !ok2 || r2.Cmp(want) != 0 {
					return violf("%s = %s exactly, an integer; but %s returned %s, want %s", at, r.RatString(), t2, g2, want.RatString()), f
				}
			}
		}
	}
	// commutativity of + and * (value and error class)
	if c.Op == "+" || c.Op == "*" {
		swapped := fmt.Sprintf("%s%s %s %s", mode, c.Y.pathText("b"), c.Op, c.X.pathText("a"))
		g2 := run(swapped)
		r1, ok1 := valueOf(got)
		r2, ok2 := valueOf(g2)
		if got.Class != g2.Class || ok1 != ok2 || (ok1 && r1.Cmp(r2) != 0) {
			return violf("%s = %s but %s = %s: not commutative", at, got, swapped, g2), f
		}
	}
	return nil, f
}

func ratStrings(rs []*big.Rat) []string {
	var out []string
	for _, r := range rs {
		out = append(out, r.RatString())
	}
	return out
}

var arithInts = []string{"0", "1", "-1", "2", "-2", "7", "-7", "2147483647", "2147483648", "-2147483648", "-2147483649", "9223372036854775807", "9223372036854775806", "-9223372036854775808", "-9223372036854775807", "9007199254740992", "9007199254740993", "9007199254740991", "4611686018427387904", "3037000500", "-3037000500", "3037000499"}
var arithFloats = []string{"0.5", "1.5", "2.5", "-0.5", "-2.5", "0.1", "1e-7", "1e21", "1e308", "1.7976931348623157e308", "5e-324", "9223372036854775808.0", "-9223372036854775808.0", "1.0", "2.0", "1e300", "-1e308", "0.0", "3.0", "1e19"}

func arithOperands() []Operand {
	var out []Operand
	for _, t := range arithInts {
		out = append(out, Operand{"lit", t}, Operand{"f64", t}, Operand{"num", t})
	}
	for _, t := range arithFloats {
		out = append(out, Operand{"lit", t}, Operand{"f64", t}, Operand{"num", t})
	}
	out = append(out, Operand{"num", "1e0"}, Operand{"num", "10E-1"}, Operand{"num", "-0"}, Operand{"num", "100e-2"}, Operand{"num", "9223372036854775808"}, Operand{"num", "-9223372036854775809"})
	return out
}

// SeqArithCase: operands that are not singleton numbers.
type SeqArithCase struct {
	Path string `json:"path"`
	Doc  string `json:"doc"`
	Want string `json:"want"` // "error" or a rendered item list
}

var checkSeqArith = register("c13.seq", func(c SeqArithCase) *Violation {
	p, err, pan := ParseSafe(c.Path)
	if err != nil || pan != "" {
		return violf("harness: %q does not parse", c.Path)
	}
	for _, un := range []bool{false, true} {
		o := RunQuery(context.Background(), p, MustDecode(c.Doc, un))
		if o.Panic != "" {
			return violf("%q on %s panicked: %s", c.Path, c.Doc, o.Panic)
		}
		if c.Want == "hard" {
			// (D51) both operands are evaluated before either is checked: the non-suppressible error of one
			// operand is the outcome whichever side it stands on, with and without WithSilent
			os := RunQuery(context.Background(), p, MustDecode(c.Doc, un), exec.WithSilent())
			if o.Class != EHard || os.Class != EHard {
				return violf("%q on %s: the operand's non-suppressible error is required with and without WithSilent, got %s and %s", c.Path, c.Doc, o, os)
			}
			continue
		}
		if c.Want == "error" {
			if o.Class != ESupp {
				return violf("%q on %s: a suppressible error is required, got %s", c.Path, c.Doc, o)
			}
			continue
		}
		if o.Class != EOK || fmt.Sprint(RenderSeq(o.Items, false)) != c.Want {
			return violf("%q on %s: want %s, got %s", c.Path, c.Doc, c.Want, o)
		}
	}
	return nil
})

func seqArithCases() []SeqArithCase {
	var out []SeqArithCase
	for _, op := range arithOps {
		res := map[string]string{"+": "[8]", "-": "[4]", "*": "[12]", "/": "[3]", "%": "[0]"}[op]
		out = append(out,
			SeqArithCase{"$.a " + op + " 2", `{"a":6}`, res},
			SeqArithCase{"$.a " + op + " 2", `{"a":[6]}`, res}, // lax unwraps the singleton array
			SeqArithCase{"strict $.a " + op + " 2", `{"a":[5]}`, "error"},
			SeqArithCase{"$.a " + op + " 2", `{"a":[5,6]}`, "error"},
			SeqArithCase{"$.a " + op + " 2", `{"a":[]}`, "error"},
			SeqArithCase{"$.a " + op + " 2", `{"a":"5"}`, "error"},
			SeqArithCase{"$.a " + op + " 2", `{"a":null}`, "error"},
			SeqArithCase{"$.a " + op + " 2", `{"a":true}`, "error"},
			SeqArithCase{"$.a " + op + " 2", `{"a":{}}`, "error"},
			SeqArithCase{"$.a " + op + " 2", `{"b":5}`, "error"},
			SeqArithCase{"2 " + op + " $.a", `{"a":[1,2]}`, "error"},
			SeqArithCase{"2 " + op + " $.a", `{"a":"x"}`, "error"},
			SeqArithCase{"$.a[*] " + op + " 2", `{"a":[6]}`, res},
			SeqArithCase{"$.a " + op + " $.b", `{"a":[6],"b":[2]}`, res},
			SeqArithCase{"$.a " + op + " $.b", `{"a":[[5]],"b":2}`, "error"}, // only one level is unwrapped
			SeqArithCase{"$.a " + op + " 0", `{"a":5}`, map[string]string{"+": "[5]", "-": "[5]", "*": "[0]", "/": "error", "%": "error"}[op]},
			SeqArithCase{"$.a " + op + " 0", `{"a":0}`, map[string]string{"+": "[0]", "-": "[0]", "*": "[0]", "/": "error", "%": "error"}[op]},
			SeqArithCase{"$.a " + op + " 0.0", `{"a":5.5}`, map[string]string{"+": "[11/2]", "-": "[11/2]", "*": "[0]", "/": "error", "%": "error"}[op]},
		)
		// x op y and y op x fail alike: an operand that raises a non-suppressible error, next to one that is
		// not a singleton number
		for _, bad := range []string{"$nope", `"12".datetime("HH24")`, "$.n.decimal(0)", `"2023-01-01".timestamp_tz()`, "$.n.decimal(2,1001)"} {
			for _, other := range []string{"$.a", "$.a[*]", "$.missing", "$.s", "$.e", "2"} {
				out = append(out, SeqArithCase{other + " " + op + " " + bad, `{"a":[1,2],"s":"x","e":[],"n":1}`, "hard"}, SeqArithCase{bad + " " + op + " " + other, `{"a":[1,2],"s":"x","e":[],"n":1}`, "hard"},
					SeqArithCase{"$ ? (" + other + " " + op + " " + bad + " > 0)", `{"a":[1,2],"s":"x","e":[],"n":1}`, "hard"}, SeqArithCase{"strict " + bad + " " + op + " " + other, `{"a":[1,2],"s":"x","e":[],"n":1}`, "hard"})
				if other != "$.missing" { // (in strict mode the missing key is the first error)
					out = append(out, SeqArithCase{"strict " + other + " " + op + " " + bad, `{"a":[1,2],"s":"x","e":[],"n":1}`, "hard"})
				}
			}
		}
	}
	out = append(out,
		SeqArithCase{"-$.a", `{"a":[1,2,3]}`, "[-1 -2 -3]"},
		SeqArithCase{"+$.a", `{"a":[1,2.5]}`, "[1 5/2]"},
		SeqArithCase{"-$.a", `{"a":[]}`, "[]"},
		SeqArithCase{"-$.a", `{"a":[1,"x"]}`, "error"},
		SeqArithCase{"-$.a", `{"a":["x",1]}`, "error"},
		SeqArithCase{"-$.a", `{"a":null}`, "error"},
		SeqArithCase{"-$.a", `{"a":[[1]]}`, "error"},
		SeqArithCase{"strict -$.a", `{"a":[1,2]}`, "error"},
		SeqArithCase{"strict -$.a[*]", `{"a":[1,2]}`, "[-1 -2]"},
		SeqArithCase{"-$.a.b", `{"a":[{"b":1},{"b":2}]}`, "[-1 -2]"},
		SeqArithCase{"(-$.a).type()", `{"a":[1,2]}`, `["number" "number"]`},
		SeqArithCase{"-(-$.a)", `{"a":[1,-2]}`, "[1 -2]"},
	)
	return out
}

// UnaryStepsCase: a parenthesised unary sign over several numeric items followed
// by a filter (and optionally .abs()): the sign applies to every item, whatever
// the following steps do with the earlier ones.
type UnaryStepsCase struct {
	Signs string   `json:"signs"` // "-", "+", "--", "-+" ...
	Arr   []string `json:"arr"`   // JSON number texts
	Op    string   `json:"op"`
	K     int64    `json:"k"`
	Abs   bool     `json:"abs,omitempty"`
	Wrap  bool     `json:"wrap,omitempty"` // operand is $.a (lax unwrapping) rather than $[*]
}

func (c UnaryStepsCase) pathAndDoc() (string, string) {
	operand, doc := "$[*]", "["+strings.Join(c.Arr, ",")+"]"
	if c.Wrap {
		operand, doc = "$.a", `{"a":`+doc+`}`
	}
	expr := operand
	for i := len(c.Signs) - 1; i >= 0; i-- {
		expr = "(" + string(c.Signs[i]) + expr + ")"
	}
	if c.Abs {
		expr += ".abs()"
	}
	k := fmt.Sprint(c.K)
	return expr + " ? (@ " + c.Op + " " + k + ")", doc
}

var checkUnarySteps = register("c13.unary_steps", func(c UnaryStepsCase) *Violation {
	text, doc := c.pathAndDoc()
	p, err, pan := ParseSafe(text)
	if err != nil || pan != "" {
		return violf("harness: %q does not parse: %v %s", text, err, pan)
	}
	neg := strings.Count(c.Signs, "-")%2 == 1
	wantFor := func(un bool) ([]string, bool) {
		var want []string
		for _, a := range c.Arr {
			r, ok := new(big.Rat).SetString(a)
			if !ok {
				return nil, false
			}
			if !un {
				// decoded as float64: the item is the nearest double
				f, _ := strconv.ParseFloat(a, 64)
				r.SetFloat64(f)
			}
			if neg {
				r.Neg(r)
			}
			if c.Abs {
				r.Abs(r)
			}
			cmp := r.Cmp(new(big.Rat).SetInt64(c.K))
			keep := map[string]bool{"==": cmp == 0, "!=": cmp != 0, "<": cmp < 0, "<=": cmp <= 0, ">": cmp > 0, ">=": cmp >= 0}[c.Op]
			if keep {
				if r.IsInt() {
					want = append(want, r.Num().String())
				} else {
					want = append(want, r.RatString())
				}
			}
		}
		return want, true
	}
	for _, un := range []bool{false, true} {
		want, ok := wantFor(un)
		if !ok {
			return violf("harness: bad number in %v", c.Arr)
		}
		d := MustDecode(doc, un)
		o := RunQuery(context.Background(), p, d)
		if o.Panic != "" || o.Class != EOK || !sameSeq(want, RenderSeq(o.Items, false)) {
			return violf("%q on %s: the sign applies to every item, so the filter keeps %v; Query returned %s%s", text, doc, want, o, o.Panic)
		}
		ex := RunExists(context.Background(), p, d)
		if ex.Panic != "" || ex.Class != EOK || ex.Bool != (len(want) > 0) {
			return violf("%q on %s: the filter keeps %v but Exists = %v, %v%s", text, doc, want, ex.Bool, ex.Err, ex.Panic)
		}
	}
	return nil
})

func TestC13(t *testing.T) {
	ev := newEv(t, "C13")
	ev.replayTier(t)
	record := func(class string, c ArithCase, f arithFacts) {
		key, _ := json.Marshal(c)
		ev.Eval(string(key), f.nontrivial)
		ev.Label("query:" + f.class)
		ev.Sample(class+":"+c.Op+":"+f.class, c)
	}
	t.Run("pair_table", func(t *testing.T) {
		b := ev.enum(t)
		ops := arithOperands()
		i := 0
		for _, x := range ops {
			for _, op := range []string{"+", "-"} {
				i++
				if !mine(i) {
					continue
				}
				c := ArithCase{Op: op, X: x}
				v, f := checkArithFacts(c)
				record("unary", c, f)
				if !b.Check("c13.arith", c, v) {
					return
				}
			}
			for _, y := range ops {
				for _, op := range arithOps {
					i++
					if !mine(i) {
						continue
					}
					y := y
					c := ArithCase{Op: op, X: x, Y: &y, Strict: i%7 == 0}
					v, f := checkArithFacts(c)
					record("binary", c, f)
					if !b.Check("c13.arith", c, v) {
						return
					}
				}
			}
		}
		ev.Exhaustive("operand_pairs_by_operator_by_representation", int64(i))
	})
	t.Run("sequences", func(t *testing.T) {
		b := ev.enum(t)
		cs := seqArithCases()
		for i, c := range cs {
			if !mine(i) {
				continue
			}
			ev.Eval(c.Path+"\x00"+c.Doc, true)
			ev.Sample("sequence_operands", c)
			if !b.Check("c13.seq", c, checkSeqArith(c)) {
				return
			}
		}
		ev.Exhaustive("non_singleton_and_non_numeric_operands", int64(len(cs)))
	})
	ev.rapidProp(t, "unary_then_steps", func(rt *rapid.T) {
		n := rapid.IntRange(1, 5).Draw(rt, "n")
		c := UnaryStepsCase{
			Signs: rapid.SampledFrom([]string{"-", "+", "--", "-+", "+-", "---"}).Draw(rt, "signs"),
			Op:    rapid.SampledFrom(cmpOps).Draw(rt, "op"),
			K:     int64(rapid.IntRange(-4, 4).Draw(rt, "k")),
			Abs:   rapid.IntRange(0, 3).Draw(rt, "abs") == 0,
			Wrap:  rapid.Bool().Draw(rt, "wrap"),
		}
		for i := 0; i < n; i++ {
			c.Arr = append(c.Arr, rapid.SampledFrom([]string{"0", "1", "2", "3", "-1", "-2", "-3", "2.5", "-0.5", "4", "9007199254740993", "-9223372036854775807"}).Draw(rt, fmt.Sprintf("a%d", i)))
		}
		key, _ := json.Marshal(c)
		ev.Eval(string(key), n >= 2)
		text, doc := c.pathAndDoc()
		ev.Sample("unary_then_steps", map[string]string{"path": text, "doc": doc})
		ev.Check(rt, "c13.unary_steps", c, checkUnarySteps(c))
	})
	ev.rapidProp(t, "random", func(rt *rapid.T) {
		operand := func(l string) Operand {
			repr := rapid.SampledFrom([]string{"lit", "f64", "num"}).Draw(rt, l+"repr")
			var text string
			switch rapid.IntRange(0, 4).Draw(rt, l+"kind") {
			case 0:
				text = fmt.Sprint(rapid.Int64().Draw(rt, l+"i64"))
			case 1:
				text = fmt.Sprint(int64(rapid.Int32().Draw(rt, l+"i32")))
			case 2:
				text = strconv.FormatFloat(rapid.Float64().Draw(rt, l+"f"), 'g', -1, 64)
			case 3:
				// near the int64 limits
				text = fmt.Sprint(math.MaxInt64 - int64(rapid.IntRange(0, 3).Draw(rt, l+"d")))
				if rapid.Bool().Draw(rt, l+"neg") {
					text = fmt.Sprint(math.MinInt64 + int64(rapid.IntRange(0, 3).Draw(rt, l+"d2")))
				}
			default:
				text = fmt.Sprint(rapid.IntRange(-20, 20).Draw(rt, l+"small"))
			}
			if strings.ContainsAny(text, "IN") { // Inf / NaN are not JSON numbers
				text = "1"
			}
			if repr == "lit" && strings.Contains(text, "e") && !strings.Contains(text, ".") {
				// fine: 1e+21 is a numeric literal
			}
			return Operand{repr, text}
		}
		x := operand("x")
		c := ArithCase{Op: rapid.SampledFrom(arithOps).Draw(rt, "op"), X: x, Strict: rapid.Bool().Draw(rt, "strict")}
		if rapid.IntRange(0, 5).Draw(rt, "unary") == 0 {
			c.Op = rapid.SampledFrom([]string{"-", "+"}).Draw(rt, "uop")
		} else {
			y := operand("y")
			c.Y = &y
		}
		v, f := checkArithFacts(c)
		record("random", c, f)
		ev.Check(rt, "c13.arith", c, v)
	})
}
