package checks

// Reference model: an independent, denotational interpreter of SQL/JSON path
// semantics written from the documented rules (path/README.md "Operation",
// "Strict And Lax Modes", the operator and method tables) and the normative
// statements of the properties. It does not import path/exec or path/types.
//
// Evaluation is depth-first, left to right: every item a step produces is
// pushed through the rest of the chain before the step produces its next
// item, so "the first error met" and "the items found before it" are defined.

import (
	"encoding/json"
	"fmt"
	"math"
	"math/big"
	"regexp"
	"sort"
	"strconv"
	"strings"
	"sync"
	"time"
)

// merr is a model error: suppressible or not; dontCare marks behaviour the
// properties and documentation leave open (the case is then excluded).
type merr struct {
	hard     bool
	dontCare bool
	msg      string
}

func suppErr(f string, a ...any) *merr { return &merr{msg: fmt.Sprintf(f, a...)} }
func hardErr(f string, a ...any) *merr { return &merr{hard: true, msg: fmt.Sprintf(f, a...)} }
func openErr(f string, a ...any) *merr { return &merr{dontCare: true, msg: fmt.Sprintf(f, a...)} }

// mdt is a model datetime value.
type mdt struct {
	Kind string // date | time | timetz | timestamp | timestamptz
	T    time.Time
}

var dtTypeName = map[string]string{"date": "date", "time": "time without time zone", "timetz": "time with time zone", "timestamp": "timestamp without time zone", "timestamptz": "timestamp with time zone"}

func (d *mdt) String() string {
	switch d.Kind {
	case "date":
		return d.T.Format("2006-01-02")
	case "time":
		return d.T.Format("15:04:05.999999999")
	case "timetz":
		return d.T.Format("15:04:05.999999999-07:00")
	case "timestamp":
		return d.T.Format("2006-01-02T15:04:05.999999999")
	}
	return d.T.Format("2006-01-02T15:04:05.999999999-07:00")
}

// menv is the evaluation environment.
type menv struct {
	strict    bool
	root      any
	cur       any
	last      int
	vars      map[string]any
	hasVars   bool
	useTZ     bool
	zone      *time.Location
	ignore    bool // structural errors are skipped (lax mode, or below .**)
	orderOpen bool // the evaluation iterated an object with >= 2 members
	quirkD19  bool
	usedD19   bool
	quirkD17b bool
	usedD17b  bool
	fixedD37  bool // "is unknown" propagates a non-suppressible operand error (finding D37 repaired)
	usedD37   bool
	sawD9     bool
	steps     int
}

func (e *menv) lax() bool { return !e.strict }

// Model evaluates a path.
type Model struct {
	env *menv
}

// ModelResult is what the model predicts for Query.
type ModelResult struct {
	Items     []any // items emitted before the first error (all items if none)
	Err       *merr
	OrderOpen bool
	UsedD19   bool
	UsedD17b  bool
	UsedD37   bool
	SawD9     bool
}

// RunModel evaluates p on doc.
func RunModel(p *Path, doc any, o Opts, vars map[string]any, quirkD19 bool, quirks ...string) ModelResult {
	zone := zoneOf(o.Zone)
	if zone == nil {
		zone = time.UTC
	}
	env := &menv{strict: p.Strict, root: doc, cur: doc, last: -1, vars: vars, hasVars: vars != nil, useTZ: o.TZ, zone: zone, ignore: !p.Strict, quirkD19: quirkD19}
	env.fixedD37 = !d37Active() // every user of the model follows the tree, whichever way finding D37 stands
	for _, q := range quirks {
		if q == "D17b" {
			env.quirkD17b = true
		}
		if q == "noD37" {
			env.fixedD37 = true
		}
	}
	m := &Model{env: env}
	var items []any
	err := m.expr(p.Root, func(v any) *merr {
		if containsLooseKvID(v) {
			return openErr("a keyvalue id escapes its triple")
		}
		items = append(items, v)
		return nil
	})
	return ModelResult{Items: items, Err: err, OrderOpen: env.orderOpen, UsedD19: env.usedD19, UsedD17b: env.usedD17b, UsedD37: env.usedD37, SawD9: env.sawD9}
}

var (
	d37Once  sync.Once
	d37State bool
)

// d37Active probes once per process whether "is unknown" still swallows a non-suppressible error.
func d37Active() bool {
	d37Once.Do(func() {
		if probe := quirkProbes["is_unknown_swallows_hard_error"]; probe != nil {
			d37State = safeProbe(probe)
		}
	})
	return d37State
}

type emitFn func(any) *merr

// kvID stands for the id member of a keyvalue() triple: its value derives from
// heap addresses, so any computation that looks at it is left open.
type kvID struct{}

func isKvID(v any) bool { _, ok := v.(kvID); return ok }

func containsLooseKvID(v any) bool {
	switch x := v.(type) {
	case kvID:
		return true
	case []any:
		for _, e := range x {
			if containsLooseKvID(e) {
				return true
			}
		}
	case map[string]any:
		for k, e := range x {
			if k == "id" && isTriple(x) && isKvID(e) {
				continue
			}
			if containsLooseKvID(e) {
				return true
			}
		}
	}
	return false
}

// ---------------------------------------------------------------------------
// numbers

func asNum(v any) (onum, bool) {
	switch v := v.(type) {
	case int64:
		return onum{isInt: true, i: v}, true
	case int:
		return onum{isInt: true, i: int64(v)}, true
	case float64:
		return onum{f: v}, true
	case json.Number:
		if i, err := strconv.ParseInt(string(v), 10, 64); err == nil {
			return onum{isInt: true, i: i}, true
		}
		f, err := strconv.ParseFloat(string(v), 64)
		if err != nil || math.IsInf(f, 0) {
			return onum{}, false
		}
		return onum{f: f}, true
	}
	return onum{}, false
}

func isNumber(v any) bool {
	switch v.(type) {
	case int64, int, float64, json.Number:
		return true
	}
	return false
}

func (n onum) value() any {
	if n.isInt {
		return n.i
	}
	return n.f
}

// ---------------------------------------------------------------------------
// expressions

// collect evaluates n and returns all items or the first error.
func (m *Model) collect(n *Node) ([]any, *merr) {
	var out []any
	err := m.expr(n, func(v any) *merr { out = append(out, v); return nil })
	return out, err
}

// collectUnwrapped is collect followed by lax unwrapping of array items.
func (m *Model) collectUnwrapped(n *Node, unwrap bool) ([]any, *merr) {
	items, err := m.collect(n)
	if err != nil {
		return nil, err
	}
	if !unwrap || m.env.strict {
		return items, nil
	}
	var out []any
	for _, it := range items {
		if arr, ok := it.([]any); ok {
			out = append(out, arr...)
		} else {
			out = append(out, it)
		}
	}
	return out, nil
}

// expr evaluates a head node (with its chain) and emits the results.
func (m *Model) expr(n *Node, emit emitFn) *merr {
	e := m.env
	e.steps++
	next := func(v any) *merr { return m.chain(n.Next, v, emit) }
	switch n.K {
	case KRoot:
		return next(e.root)
	case KCur:
		return next(e.cur)
	case KLast:
		if e.last < 0 {
			return hardErr("LAST outside of array subscript")
		}
		return next(int64(e.last - 1))
	case KVar:
		v, ok := e.vars[n.S]
		if !ok {
			return hardErr("could not find jsonpath variable %q", n.S)
		}
		return next(v)
	case KStr:
		return next(n.S)
	case KInt:
		return next(n.I)
	case KNum:
		return next(n.F)
	case KTrue:
		return next(true)
	case KFalse:
		return next(false)
	case KNull:
		return next(nil)
	case KBin:
		if isArithOp(n.S) {
			return m.binaryArith(n, next)
		}
		return m.predAsItem(n, next)
	case KUn:
		if n.S == "!" {
			return m.predAsItem(n, next)
		}
		return m.unaryArith(n, next)
	case KExists, KIsUnknown, KRegex:
		return m.predAsItem(n, next)
	}
	return openErr("model: unexpected head %s", n.K)
}

func (m *Model) predAsItem(n *Node, next emitFn) *merr {
	o, err := m.pred(n)
	if err != nil {
		return err
	}
	switch o {
	case "T":
		return next(true)
	case "F":
		return next(false)
	}
	return next(nil)
}

func (m *Model) binaryArith(n *Node, next emitFn) *merr {
	l, err := m.collectUnwrapped(n.A, true)
	if err != nil {
		return err
	}
	// (D51) both operands are evaluated before either is checked, so an error of the right operand
	// is reported even when the left one is not a singleton
	r, err := m.collectUnwrapped(n.B, true)
	if err != nil {
		return err
	}
	if len(l) != 1 {
		return suppErr("left operand of %s is not a single numeric value", n.S)
	}
	if len(r) != 1 {
		return suppErr("right operand of %s is not a single numeric value", n.S)
	}
	if _, isNum := l[0].(json.Number); isNum {
		if _, ok := asNum(l[0]); !ok {
			return suppErr("left operand out of range")
		}
	}
	if isKvID(l[0]) || isKvID(r[0]) {
		return openErr("arithmetic on a keyvalue id")
	}
	x, ok1 := asNum(l[0])
	y, ok2 := asNum(r[0])
	if !ok1 {
		return suppErr("left operand of %s is not a single numeric value", n.S)
	}
	if !ok2 {
		return suppErr("right operand of %s is not a single numeric value", n.S)
	}
	acc, mustErr, _ := arithOracle(n.S, x, y)
	if mustErr || len(acc) == 0 {
		return suppErr("arithmetic error")
	}
	// the first accepted value is the canonical one (exact integer / truncated quotient / IEEE result)
	res := acc[0]
	if x.isInt && y.isInt && fitsInt64(res) {
		return next(res.Num().Int64())
	}
	f, _ := res.Float64()
	return next(f)
}

func (m *Model) unaryArith(n *Node, next emitFn) *merr {
	items, err := m.collectUnwrapped(n.A, true)
	if err != nil {
		return err
	}
	for _, it := range items {
		if isKvID(it) {
			return openErr("arithmetic on a keyvalue id")
		}
		x, ok := asNum(it)
		if !ok {
			return suppErr("operand of unary %s is not a numeric value", n.S)
		}
		var v any
		switch {
		case n.S == "+":
			v = x.value()
		case x.isInt && x.i == math.MinInt64:
			v = -float64(x.i)
		case x.isInt:
			v = -x.i
		default:
			v = -x.f
		}
		if err := next(v); err != nil {
			return err
		}
	}
	return nil
}

// ---------------------------------------------------------------------------
// accessor chains

func (m *Model) chain(a *Node, item any, emit emitFn) *merr {
	if a == nil {
		return emit(item)
	}
	if isKvID(item) {
		return openErr("a step is applied to a keyvalue id")
	}
	e := m.env
	e.steps++
	next := func(v any) *merr { return m.chain(a.Next, v, emit) }
	structural := func(f string, args ...any) *merr {
		if e.ignore {
			return nil
		}
		return suppErr(f, args...)
	}
	switch a.K {
	case KKey:
		return m.keyStep(a, item, next, structural, true)
	case KAnyKey:
		return m.anyKeyStep(item, next, structural, true)
	case KAnyArr:
		if arr, ok := item.([]any); ok {
			for _, el := range arr {
				if err := next(el); err != nil {
					return err
				}
			}
			return nil
		}
		if e.lax() {
			return next(item)
		}
		return structural("[*] applied to a non-array")
	case KIdx:
		return m.idxStep(a, item, next)
	case KAny:
		return m.anyStep(a, item, emit)
	case KFilter:
		if arr, ok := item.([]any); ok && e.lax() {
			for _, el := range arr {
				if err := m.filterOne(a, el, next); err != nil {
					return err
				}
			}
			return nil
		}
		return m.filterOne(a, item, next)
	case KMethod:
		return m.method(a, item, next)
	case KDecimal:
		return m.numberMethod(a, item, next, true)
	case KDT:
		return m.datetimeMethod(a, item, next)
	}
	return openErr("model: unexpected accessor %s", a.K)
}

func (m *Model) markObject(o map[string]any) {
	if len(o) >= 2 && !membersInKeyOrder() {
		m.env.orderOpen = true
	}
}

func (m *Model) keyStep(a *Node, item any, next emitFn, structural func(string, ...any) *merr, unwrap bool) *merr {
	switch v := item.(type) {
	case map[string]any:
		if val, ok := v[a.S]; ok {
			return next(val)
		}
		return structural("object does not contain key %q", a.S)
	case []any:
		if unwrap && m.env.lax() {
			for _, el := range v {
				if err := m.keyStep(a, el, next, structural, false); err != nil {
					return err
				}
			}
			return nil
		}
	}
	return structural("member accessor applied to a non-object")
}

func (m *Model) anyKeyStep(item any, next emitFn, structural func(string, ...any) *merr, unwrap bool) *merr {
	switch v := item.(type) {
	case map[string]any:
		m.markObject(v)
		for _, k := range sortedKeys(v) {
			if err := next(v[k]); err != nil {
				return err
			}
		}
		return nil
	case []any:
		if unwrap && m.env.lax() {
			for _, el := range v {
				if err := m.anyKeyStep(el, next, structural, false); err != nil {
					return err
				}
			}
			return nil
		}
	}
	return structural("wildcard member accessor applied to a non-object")
}

func (m *Model) idxStep(a *Node, item any, next emitFn) *merr {
	e := m.env
	arr, ok := item.([]any)
	if !ok {
		if e.strict {
			// the array accessor itself fails in strict mode even below .** (outside the statement: don't care)
			if e.ignore {
				return openErr("array accessor on a non-array below strict .**")
			}
			return suppErr("array accessor applied to a non-array")
		}
		arr = []any{item}
	}
	saved := e.last
	e.last = len(arr)
	defer func() { e.last = saved }()
	n := len(arr)
	bound := func(b *Node) (int, *merr) {
		items, err := m.collect(b)
		if err != nil {
			return 0, err
		}
		if len(items) != 1 {
			return 0, suppErr("array subscript is not a single numeric value")
		}
		if isKvID(items[0]) {
			return 0, openErr("a keyvalue id as subscript")
		}
		x, ok := asNum(items[0])
		if !ok {
			return 0, suppErr("array subscript is not a single numeric value")
		}
		f := x.float()
		if x.isInt {
			if x.i > math.MaxInt32 || x.i < math.MinInt32 {
				return 0, suppErr("array subscript is out of integer range")
			}
			return int(x.i), nil
		}
		t := math.Trunc(f)
		if t > math.MaxInt32 || t < math.MinInt32 || math.IsNaN(t) {
			return 0, suppErr("array subscript is out of integer range")
		}
		return int(t), nil
	}
	for _, s := range a.Subs {
		from, err := bound(s.From)
		if err != nil {
			return err
		}
		to := from
		if s.To != nil {
			to, err = bound(s.To)
			if err != nil {
				return err
			}
		}
		if !e.ignore && (from < 0 || from > to || to >= n) {
			return suppErr("array subscript is out of bounds")
		}
		if from < 0 {
			from = 0
		}
		if to >= n {
			to = n - 1
		}
		for i := from; i <= to; i++ {
			if arr[i] == nil && e.quirkD19 {
				e.usedD19 = true
				continue
			}
			if err := next(arr[i]); err != nil {
				return err
			}
		}
	}
	return nil
}

func (m *Model) anyStep(a *Node, item any, emit emitFn) *merr {
	e := m.env
	if a.First == -1 && a.Last != -1 {
		return openErr(".**{last to n} is left open")
	}
	saved := e.ignore
	e.ignore = true
	defer func() { e.ignore = saved }()
	var walk func(v any, depth int64) *merr
	walk = func(v any, depth int64) *merr {
		sel := false
		switch {
		case a.First == -1: // {last}: scalar leaves below the item
			sel = depth >= 1 && isScalarLeaf(v)
		default:
			sel = depth >= a.First && (a.Last == -1 || depth <= a.Last)
		}
		if sel {
			if err := m.chain(a.Next, v, emit); err != nil {
				return err
			}
		}
		if a.Last != -1 && depth >= a.Last {
			return nil
		}
		switch x := v.(type) {
		case []any:
			for _, el := range x {
				if err := walk(el, depth+1); err != nil {
					return err
				}
			}
		case map[string]any:
			m.markObject(x)
			for _, k := range sortedKeys(x) {
				if err := walk(x[k], depth+1); err != nil {
					return err
				}
			}
		}
		return nil
	}
	return walk(item, 0)
}

func (m *Model) filterOne(a *Node, item any, next emitFn) *merr {
	e := m.env
	saved := e.cur
	e.cur = item
	o, err := m.pred(a.A)
	e.cur = saved
	if err != nil {
		return err
	}
	if o == "T" {
		return next(item)
	}
	return nil
}

// ---------------------------------------------------------------------------
// predicates: T / F / U, or a non-suppressible error

func (m *Model) pred(n *Node) (string, *merr) {
	m.env.steps++
	switch n.K {
	case KBin:
		switch n.S {
		case "&&":
			l, err := m.pred(n.A)
			if err != nil || l == "F" {
				return l, err
			}
			r, err := m.pred(n.B)
			if err != nil {
				return "U", err
			}
			return kAnd(l, r), nil
		case "||":
			l, err := m.pred(n.A)
			if err != nil || l == "T" {
				return l, err
			}
			r, err := m.pred(n.B)
			if err != nil {
				return "U", err
			}
			return kOr(l, r), nil
		case "starts with":
			return m.pairwise(n.A, n.B, false, func(l, r any) (string, *merr) {
				ls, ok1 := l.(string)
				rs, ok2 := r.(string)
				if !ok1 || !ok2 {
					return "U", nil
				}
				if strings.HasPrefix(ls, rs) {
					return "T", nil
				}
				return "F", nil
			})
		default:
			return m.pairwise(n.A, n.B, true, func(l, r any) (string, *merr) { return m.compare(n.S, l, r) })
		}
	case KUn: // !
		o, err := m.pred(n.A)
		if err != nil {
			return "U", err
		}
		return kNot(o), nil
	case KIsUnknown:
		o, err := m.pred(n.A)
		if err != nil {
			if err.dontCare {
				return "U", err
			}
			if err.hard {
				// open finding D37: a non-suppressible error of the operand is swallowed and reads as
				// unknown (pinned by a unit test); once repaired it has to surface like everywhere else
				if m.env.fixedD37 {
					return "U", err
				}
				m.env.usedD37 = true
			}
			return "T", nil
		}
		return kUnknown(o), nil
	case KExists:
		return m.exists(n.A)
	case KRegex:
		re, cerr := regexp.Compile(n.regexSource())
		if cerr != nil {
			return "U", openErr("model: regex does not compile")
		}
		return m.pairwise(n.A, nil, false, func(l, _ any) (string, *merr) {
			s, ok := l.(string)
			if !ok {
				return "U", nil
			}
			if re.MatchString(s) {
				return "T", nil
			}
			return "F", nil
		})
	}
	return "U", openErr("model: unexpected predicate %s", n.K)
}

// operand evaluates a predicate operand: suppressible errors make the
// predicate unknown (ok=false), others propagate.
func (m *Model) operand(n *Node, unwrap bool) ([]any, bool, *merr) {
	items, err := m.collectUnwrapped(n, unwrap)
	if err != nil {
		if err.hard || err.dontCare {
			return nil, false, err
		}
		return nil, false, nil
	}
	return items, true, nil
}

func (m *Model) pairwise(ln, rn *Node, unwrapRight bool, f func(l, r any) (string, *merr)) (string, *merr) {
	left, ok, err := m.operand(ln, true)
	if err != nil {
		return "U", err
	}
	if !ok {
		return "U", nil
	}
	right := []any{nil}
	if rn != nil {
		right, ok, err = m.operand(rn, unwrapRight)
		if err != nil {
			return "U", err
		}
		if !ok {
			return "U", nil
		}
	}
	found, unknown := false, false
	for _, l := range left {
		for _, r := range right {
			if isKvID(l) || isKvID(r) {
				return "U", openErr("a keyvalue id in a predicate")
			}
			o, err := f(l, r)
			if err != nil {
				return "U", err
			}
			switch o {
			case "U":
				if m.env.strict {
					return "U", nil
				}
				unknown = true
			case "T":
				if !m.env.strict {
					return "T", nil
				}
				found = true
			}
		}
	}
	switch {
	case found:
		return "T", nil
	case unknown:
		return "U", nil
	}
	return "F", nil
}

func (m *Model) exists(n *Node) (string, *merr) {
	e := m.env
	if e.strict {
		items, ok, err := m.operand(n, false)
		if err != nil {
			return "U", err
		}
		if !ok {
			return "U", nil
		}
		if len(items) > 0 {
			return "T", nil
		}
		return "F", nil
	}
	if e.quirkD17b && n.K == KUn && n.S != "!" && n.Next == nil {
		// open finding D17b: in lax existence mode a chain-less unary sign accepts any first operand item
		items, ok, err := m.operand(n.A, true)
		if err != nil {
			return "U", err
		}
		if !ok {
			return "U", nil
		}
		for _, it := range items {
			if !isNumber(it) {
				e.usedD17b = true
			}
			break
		}
		if len(items) > 0 {
			return "T", nil
		}
		return "F", nil
	}
	// lax: true at the first item
	found := false
	stop := &merr{msg: "stop"}
	err := m.expr(n, func(any) *merr { found = true; return stop })
	switch {
	case found:
		return "T", nil
	case err == nil:
		return "F", nil
	case err.hard || err.dontCare:
		return "U", err
	}
	return "U", nil
}

func boolOutcome(b bool) string {
	if b {
		return "T"
	}
	return "F"
}

func (m *Model) compare(op string, l, r any) (string, *merr) {
	if isKvID(l) || isKvID(r) {
		return "U", openErr("a keyvalue id is compared")
	}
	if (l == nil) != (r == nil) {
		return boolOutcome(op == "!="), nil
	}
	var c int
	switch lv := l.(type) {
	case nil:
		c = 0
	case bool:
		rv, ok := r.(bool)
		if !ok {
			return "U", nil
		}
		switch {
		case lv == rv:
			c = 0
		case lv:
			c = 1
		default:
			c = -1
		}
	case string:
		rv, ok := r.(string)
		if !ok {
			return "U", nil
		}
		c = strings.Compare(lv, rv)
	case *mdt:
		rv, ok := r.(*mdt)
		if !ok {
			m.env.sawD9 = true // open finding D9: the implementation returns ErrInvalid here
			return "U", nil
		}
		var err *merr
		var comparable bool
		c, comparable, err = m.compareDT(lv, rv)
		if err != nil {
			return "U", err
		}
		if !comparable {
			return "U", nil
		}
	case []any, map[string]any:
		return "U", nil
	default:
		x, ok1 := asNum(l)
		if !ok1 {
			if isNumber(l) {
				return "U", nil // json.Number outside int64/float64
			}
			return "U", openErr("model: unexpected value %T", l)
		}
		if !isNumber(r) {
			return "U", nil
		}
		y, ok2 := asNum(r)
		if !ok2 {
			return "U", nil
		}
		c = x.rat().Cmp(y.rat())
	}
	switch op {
	case "==":
		return boolOutcome(c == 0), nil
	case "!=":
		return boolOutcome(c != 0), nil
	case "<":
		return boolOutcome(c < 0), nil
	case "<=":
		return boolOutcome(c <= 0), nil
	case ">":
		return boolOutcome(c > 0), nil
	}
	return boolOutcome(c >= 0), nil
}

// ---------------------------------------------------------------------------
// item methods

func (m *Model) unwrapFor(a *Node, item any, next emitFn, f func(*Node, any, emitFn) *merr) (bool, *merr) {
	if arr, ok := item.([]any); ok && m.env.lax() {
		for _, el := range arr {
			if err := f(a, el, next); err != nil {
				return true, err
			}
		}
		return true, nil
	}
	return false, nil
}

func typeName(v any) string {
	switch x := v.(type) {
	case nil:
		return "null"
	case bool:
		return "boolean"
	case string:
		return "string"
	case []any:
		return "array"
	case map[string]any:
		return "object"
	case *mdt:
		return dtTypeName[x.Kind]
	}
	if isNumber(v) {
		return "number"
	}
	return "?"
}

// canonicalNumberString reports whether s is a plain decimal number text that
// every reasonable string-to-number conversion reads the same way.
var canonNumRe = regexp.MustCompile(`^-?(0|[1-9][0-9]*)(\.[0-9]+)?([eE][-+]?[0-9]+)?$`)
var canonIntRe = regexp.MustCompile(`^-?(0|[1-9][0-9]*)$`)

// numberish: a non-empty string made only of characters that occur in some
// spelling of a number (digits, signs, point, exponent, radix prefixes, hex
// digits, underscores, blanks, inf/nan letters). Whether a conversion method
// accepts such a non-canonical spelling ("0000", "+1", " 1", "1_0", "0x10",
// "1.", "Infinity") is left open by the statements.
func numberish(s string) bool {
	return s != "" && strings.Trim(s, "0123456789+-._eExXoObBaAcCdDfFiInNtTyY \t\n\r") == "" && strings.ContainsAny(s, "0123456789iInN")
}

func (m *Model) method(a *Node, item any, next emitFn) *merr {
	e := m.env
	switch a.S {
	case "type":
		return next(typeName(item))
	case "size":
		if arr, ok := item.([]any); ok {
			return next(int64(len(arr)))
		}
		if e.strict && !e.ignore {
			return suppErr(".size() applied to a non-array")
		}
		if e.strict && e.ignore {
			return openErr(".size() on a non-array below strict .**")
		}
		return next(int64(1))
	case "keyvalue":
		return m.keyvalue(a, item, next, true)
	}
	if done, err := m.unwrapFor(a, item, next, m.methodScalar); done {
		return err
	}
	return m.methodScalar(a, item, next)
}

func (m *Model) methodScalar(a *Node, item any, next emitFn) *merr {
	name := a.S
	if _, isArr := item.([]any); isArr {
		return suppErr(".%s() applied to an array", name)
	}
	numOf := func(allowString bool) (onum, *merr) {
		if s, ok := item.(string); ok && allowString {
			if !canonNumRe.MatchString(s) {
				if _, err := strconv.ParseFloat(s, 64); err != nil && !strings.ContainsAny(strings.ToLower(s), "infa_xp") && strings.TrimSpace(s) == s && s != "" {
					return onum{}, suppErr("string %q is not a number", s)
				}
				return onum{}, openErr("non-canonical numeric string %q", s)
			}
			if canonIntRe.MatchString(s) {
				if i, err := strconv.ParseInt(s, 10, 64); err == nil {
					return onum{isInt: true, i: i}, nil
				}
			}
			f, err := strconv.ParseFloat(s, 64)
			if err != nil || math.IsInf(f, 0) {
				return onum{}, suppErr("numeric string out of range")
			}
			return onum{f: f}, nil
		}
		if x, ok := asNum(item); ok {
			return x, nil
		}
		if isNumber(item) {
			return onum{}, suppErr("number out of range")
		}
		return onum{}, suppErr(".%s() applied to %s", name, typeName(item))
	}
	switch name {
	case "abs", "floor", "ceiling":
		x, err := numOf(false)
		if err != nil {
			return err
		}
		if x.isInt {
			switch {
			case name == "abs" && x.i == math.MinInt64:
				return next(-float64(x.i))
			case name == "abs" && x.i < 0:
				return next(-x.i)
			}
			return next(x.i)
		}
		switch name {
		case "abs":
			return next(math.Abs(x.f))
		case "floor":
			return next(math.Floor(x.f))
		}
		return next(math.Ceil(x.f))
	case "double", "number":
		return m.numberMethod(a, item, next, false)
	case "integer", "bigint":
		lo, hi := big.NewRat(math.MinInt32, 1), big.NewRat(math.MaxInt32, 1)
		if name == "bigint" {
			lo, hi = minInt64Rat, maxInt64Rat
		}
		if s, ok := item.(string); ok {
			if !canonIntRe.MatchString(s) {
				if canonNumRe.MatchString(s) || numberish(s) {
					return openErr("string %q to integer is left open", s)
				}
				return suppErr("string %q is not an integer", s)
			}
			r, _ := new(big.Rat).SetString(s)
			if r.Cmp(lo) < 0 || r.Cmp(hi) > 0 {
				return suppErr("out of range")
			}
			return next(r.Num().Int64())
		}
		if jn, ok := item.(json.Number); ok {
			// a json.Number is converted exactly (its text is a decimal number), not through the nearest double
			f, ferr := jn.Float64()
			if ferr != nil || math.Abs(f) > 1e19 {
				return suppErr("out of range")
			}
			r := new(big.Rat)
			if math.Abs(f) >= 0.25 {
				if _, ok := r.SetString(string(jn)); !ok {
					return suppErr("not a number")
				}
			}
			r = roundHalfAway(r)
			if r.Cmp(lo) < 0 || r.Cmp(hi) > 0 {
				return suppErr("out of range")
			}
			return next(r.Num().Int64())
		}
		x, err := numOf(false)
		if err != nil {
			return err
		}
		if x.isInt {
			r := x.rat()
			if r.Cmp(lo) < 0 || r.Cmp(hi) > 0 {
				return suppErr("out of range")
			}
			return next(x.i)
		}
		// round half away from zero on the exact value
		r := roundHalfAway(x.rat())
		if r.Cmp(lo) < 0 || r.Cmp(hi) > 0 {
			return suppErr("out of range")
		}
		return next(r.Num().Int64())
	case "boolean":
		switch v := item.(type) {
		case bool:
			return next(v)
		case string:
			lower := v
			if isASCII(v) {
				lower = strings.ToLower(v) // only ASCII letters fold: "ye\u017f" is not "yes"
			}
			switch lower {
			case "t", "true", "y", "yes", "on", "1":
				return next(true)
			case "f", "false", "n", "no", "off", "0":
				return next(false)
			}
			if strings.TrimSpace(v) != v || v == "" {
				if v == "" {
					return suppErr("empty string is not a boolean")
				}
				return openErr("boolean string with blanks")
			}
			for _, p := range []string{"tr", "tru", "fa", "fal", "fals", "ye", "of", "o"} {
				if isASCII(v) && strings.EqualFold(v, p) {
					return openErr("unique-prefix boolean spelling %q is left open", v)
				}
			}
			return suppErr("string %q is not a boolean", v)
		}
		x, err := numOf(false)
		if err != nil {
			return err
		}
		if !x.rat().IsInt() {
			return suppErr("non-integral number is not a boolean")
		}
		return next(x.rat().Sign() != 0)
	case "string":
		switch v := item.(type) {
		case string:
			return next(v)
		case bool:
			return next(strconv.FormatBool(v))
		case *mdt:
			return next(v.String())
		case json.Number:
			return next(string(v))
		case int64:
			return next(strconv.FormatInt(v, 10))
		case float64:
			if v == 0 {
				// the sign of a double zero is not fixed by the rules (-1 % 1, a negative value
				// rounded to zero, -0.0 in a document ...): "0" and "-0" are both left open
				return openErr("a double zero through .string()")
			}
			return next(strconv.FormatFloat(v, 'f', -1, 64))
		}
		return suppErr(".string() applied to %s", typeName(item))
	}
	return openErr("model: unknown method %s", name)
}

func isASCII(s string) bool {
	for i := 0; i < len(s); i++ {
		if s[i] >= 0x80 {
			return false
		}
	}
	return true
}

func roundHalfAway(r *big.Rat) *big.Rat {
	half := big.NewRat(1, 2)
	neg := r.Sign() < 0
	a := new(big.Rat).Abs(r)
	a.Add(a, half)
	q := new(big.Int).Quo(a.Num(), a.Denom())
	if neg {
		q.Neg(q)
	}
	return new(big.Rat).SetInt(q)
}

// numberMethod: .double(), .number(), .decimal(p,s)
func (m *Model) numberMethod(a *Node, item any, next emitFn, isDecimal bool) *merr {
	if arr, ok := item.([]any); ok {
		if m.env.lax() {
			for _, el := range arr {
				if _, isArr := el.([]any); isArr {
					return suppErr("numeric method applied to an array")
				}
				if err := m.numberMethod(a, el, next, isDecimal); err != nil {
					return err
				}
			}
			return nil
		}
		return suppErr("numeric method applied to an array")
	}
	var f float64
	switch v := item.(type) {
	case string:
		if !canonNumRe.MatchString(v) {
			if _, err := strconv.ParseFloat(v, 64); err != nil && !strings.ContainsAny(strings.ToLower(v), "infa_xp") && strings.TrimSpace(v) == v && v != "" {
				return suppErr("string %q is not a number", v)
			}
			return openErr("non-canonical numeric string %q", v)
		}
		var err error
		f, err = strconv.ParseFloat(v, 64)
		if err != nil || math.IsInf(f, 0) {
			return suppErr("numeric string out of range")
		}
	default:
		x, ok := asNum(item)
		if !ok {
			if isNumber(item) {
				return suppErr("number out of range")
			}
			return suppErr("numeric method applied to %s", typeName(item))
		}
		f = x.float()
	}
	if math.IsInf(f, 0) || math.IsNaN(f) {
		return suppErr("NaN or Infinity")
	}
	if !isDecimal || a.A == nil {
		return next(f)
	}
	p, s := a.A.I, int64(0)
	if p > math.MaxInt32 || p < math.MinInt32 {
		return suppErr("precision out of integer range")
	}
	if p < 1 || p > 1000 {
		if a.B != nil && (a.B.I > math.MaxInt32 || a.B.I < math.MinInt32) {
			// two invalid arguments: whether the range of the precision (non-suppressible) or the
			// conversion of the scale to an integer (suppressible) is checked first is fixed nowhere
			// (the implementation checks the precision first, PostgreSQL converts both first)
			return openErr("invalid precision %d and a scale beyond the integers", p)
		}
		return hardErr("NUMERIC precision %d must be between 1 and 1000", p)
	}
	if a.B != nil {
		s = a.B.I
		if s > math.MaxInt32 || s < math.MinInt32 {
			return suppErr("scale out of integer range")
		}
		if s < -1000 || s > 1000 {
			return hardErr("NUMERIC scale %d must be between -1000 and 1000", s)
		}
	}
	// exact decimal rounding, half away from zero: of the double's exact value for a float64 / int64
	// item, of the decimal text for a string or json.Number item (whose nearest double f is)
	exact := new(big.Rat).SetFloat64(f)
	if f != 0 {
		switch v := item.(type) {
		case string:
			if r, ok := new(big.Rat).SetString(v); ok {
				exact = r
			}
		case json.Number:
			if r, ok := new(big.Rat).SetString(string(v)); ok {
				exact = r
			}
		case int64:
			// (D49) an integer item is that integer, not its nearest double
			exact.SetInt64(v)
		}
	}
	pow := new(big.Rat).SetInt(new(big.Int).Exp(big.NewInt(10), big.NewInt(absInt(s)), nil))
	scaled := new(big.Rat)
	if s >= 0 {
		scaled.Mul(exact, pow)
	} else {
		scaled.Quo(exact, pow)
	}
	rounded := roundHalfAway(scaled)
	if s >= 0 {
		rounded.Quo(rounded, pow)
	} else {
		rounded.Mul(rounded, pow)
	}
	limit := new(big.Rat)
	lp := new(big.Int).Exp(big.NewInt(10), big.NewInt(absInt(p-s)), nil)
	if p-s >= 0 {
		limit.SetInt(lp)
	} else {
		limit.SetFrac(big.NewInt(1), lp)
	}
	if rounded.Sign() != 0 && new(big.Rat).Abs(rounded).Cmp(limit) >= 0 {
		return suppErr("value does not fit numeric(%d,%d)", p, s)
	}
	rf, _ := rounded.Float64()
	if math.IsInf(rf, 0) {
		return suppErr("rounded value beyond the range of float64")
	}
	if rf == 0 && f < 0 {
		// a negative value rounded to zero: the sign of the zero is not fixed by the
		// rules (the implementation keeps IEEE -0); .string() of it is left open
		rf = math.Copysign(0, -1)
	}
	return next(rf)
}

func absInt(v int64) int64 {
	if v < 0 {
		return -v
	}
	return v
}

func (m *Model) keyvalue(a *Node, item any, next emitFn, unwrap bool) *merr {
	switch v := item.(type) {
	case map[string]any:
		for _, k := range sortedKeys(v) {
			if err := next(map[string]any{"key": k, "value": v[k], "id": kvID{}}); err != nil {
				return err
			}
		}
		return nil
	case []any:
		if unwrap && m.env.lax() {
			for _, el := range v {
				if err := m.keyvalue(a, el, next, false); err != nil {
					return err
				}
			}
			return nil
		}
	}
	return suppErr(".keyvalue() applied to a non-object")
}

// ---------------------------------------------------------------------------
// datetimes

var (
	reDate = regexp.MustCompile(`^\d{4}-\d{2}-\d{2}$`)
	reTime = regexp.MustCompile(`^\d{2}:\d{2}:\d{2}(\.\d{1,9})?$`)
	// a zone displacement has hours 00-15 and minutes 00-59 (Go's layouts let 24 and 60 through)
	reTZ    = `(Z|[+-](0\d|1[0-5])(:[0-5]\d)?)`
	reTimeZ = regexp.MustCompile(`^\d{2}:\d{2}:\d{2}(\.\d{1,9})?` + reTZ + `$`)
	reTS    = regexp.MustCompile(`^\d{4}-\d{2}-\d{2}[T ]\d{2}:\d{2}:\d{2}(\.\d{1,9})?$`)
	reTSZ   = regexp.MustCompile(`^\d{4}-\d{2}-\d{2}[T ]\d{2}:\d{2}:\d{2}(\.\d{1,9})?` + reTZ + `$`)
)

// todaysOffset: a zone-less time of day is placed in a named zone "today" (the cast is documented to depend on
// the current date - the one input of a query that is not an argument). The offset is decided only when it is
// the same for that time of day yesterday, today and tomorrow, so that neither the moment of the call nor the
// zone in which "today" is read matters; next to a change of the zone's offset it stays open.
func todaysOffset(zone *time.Location, t time.Time) (*time.Location, bool) {
	now := time.Now().UTC()
	var off *time.Location
	for _, d := range []int{-1, 0, 1} {
		day := now.AddDate(0, 0, d)
		o := fixedOf(time.Date(day.Year(), day.Month(), day.Day(), t.Hour(), t.Minute(), t.Second(), t.Nanosecond(), zone))
		if off != nil && fixedOffset(o) != fixedOffset(off) {
			return nil, false
		}
		off = o
	}
	return off, true
}

func fixedOffset(l *time.Location) int {
	_, o := time.Date(2000, 1, 1, 0, 0, 0, 0, l).Zone()
	return o
}

func fixedOf(t time.Time) *time.Location {
	_, off := t.Zone()
	return time.FixedZone("", off)
}

// parseDT recognises the documented ISO-8601 forms; the most specific type wins.
func parseDT(s string) (*mdt, bool) {
	try := func(layouts []string) (time.Time, bool) {
		for _, l := range layouts {
			if t, err := time.Parse(l, s); err == nil {
				return t, true
			}
		}
		return time.Time{}, false
	}
	switch {
	case reDate.MatchString(s):
		if t, ok := try([]string{"2006-01-02"}); ok {
			return &mdt{"date", t}, true
		}
	case reTimeZ.MatchString(s):
		if t, ok := try([]string{"15:04:05Z07", "15:04:05Z07:00"}); ok {
			return &mdt{"timetz", time.Date(0, 1, 1, t.Hour(), t.Minute(), t.Second(), t.Nanosecond(), fixedOf(t))}, true
		}
	case reTime.MatchString(s):
		if t, ok := try([]string{"15:04:05"}); ok {
			return &mdt{"time", time.Date(0, 1, 1, t.Hour(), t.Minute(), t.Second(), t.Nanosecond(), time.UTC)}, true
		}
	case reTSZ.MatchString(s):
		if t, ok := try([]string{"2006-01-02T15:04:05Z07", "2006-01-02 15:04:05Z07", "2006-01-02T15:04:05Z07:00", "2006-01-02 15:04:05Z07:00"}); ok {
			return &mdt{"timestamptz", t.In(fixedOf(t))}, true
		}
	case reTS.MatchString(s):
		if t, ok := try([]string{"2006-01-02T15:04:05", "2006-01-02 15:04:05"}); ok {
			return &mdt{"timestamp", t}, true
		}
	}
	return nil, false
}

func (m *Model) datetimeMethod(a *Node, item any, next emitFn) *merr {
	e := m.env
	if arr, ok := item.([]any); ok && e.lax() {
		for _, el := range arr {
			if _, isArr := el.([]any); isArr {
				return suppErr(".%s() applied to an array", a.S)
			}
			if err := m.datetimeMethod(a, el, next); err != nil {
				return err
			}
		}
		return nil
	}
	s, ok := item.(string)
	if !ok {
		return suppErr(".%s() can only be applied to a string", a.S)
	}
	if a.S == "datetime" && a.A != nil {
		return hardErr(".datetime(template) is not supported")
	}
	prec := -1
	if a.A != nil && a.S != "date" && a.S != "datetime" {
		if a.A.I > math.MaxInt32 {
			return suppErr("time precision out of integer range")
		}
		prec = int(min(a.A.I, 6))
	}
	v, ok := parseDT(s)
	if !ok {
		// forms the documentation does not list (e.g. 1-digit fields, years > 9999) are left open
		if looksDateTimeish(s) {
			return openErr("datetime-looking string %q outside the documented forms", s)
		}
		return suppErr("%s format is not recognized: %q", a.S, s)
	}
	want := map[string]string{"date": "date", "time": "time", "time_tz": "timetz", "timestamp": "timestamp", "timestamp_tz": "timestamptz"}[a.S]
	// (D50, D54) the precision belongs to the result of the cast: the value is cast unrounded and the result is
	// rounded. Where rounding crosses a change of the context zone's offset the other order is off by that change.
	zoneless := v.Kind != "timestamptz" && v.Kind != "timetz"
	if a.S != "datetime" && v.Kind != want {
		var err *merr
		v, err = m.castDT(v, want, a.S, s)
		if err != nil {
			return err
		}
	}
	if prec >= 0 && v.Kind != "date" {
		unit := time.Second / time.Duration(math.Pow10(prec))
		r := v.T.Round(unit)
		if (v.Kind == "time" || v.Kind == "timetz") && r.Day() != v.T.Day() {
			return openErr("rounding a time past midnight")
		}
		if v.Kind == "timestamptz" && zoneless {
			// (a value without an offset of its own shows the offset in force at the rounded instant)
			r = r.In(m.env.zone)
			r = r.In(fixedOf(r))
		}
		v = &mdt{v.Kind, r}
	}
	return next(v)
}

func looksDateTimeish(s string) bool {
	if len(s) < 4 {
		return false
	}
	digits, seps := 0, 0
	for _, r := range s {
		switch {
		case r >= '0' && r <= '9':
			digits++
		case strings.ContainsRune("-:Tt .,+Zz", r):
			seps++
		default:
			return false
		}
	}
	// Go's layouts (which the implementation parses with) accept one-digit fields, a comma
	// before the fraction and a lower-case separator
	return digits >= 3 && seps >= 1
}

func (m *Model) castDT(v *mdt, want, meth, src string) (*mdt, *merr) {
	e := m.env
	notRec := suppErr("%s format is not recognized: %q", meth, src)
	needTZ := func() *merr {
		return hardErr("cannot convert value from %s to %s without time zone usage", v.Kind, want)
	}
	named := e.zone != time.UTC && e.zone.String() != ""
	t := v.T
	switch want {
	case "date":
		switch v.Kind {
		case "timestamp":
			return &mdt{"date", time.Date(t.Year(), t.Month(), t.Day(), 0, 0, 0, 0, time.UTC)}, nil
		case "timestamptz":
			if !e.useTZ {
				return nil, needTZ()
			}
			l := t.In(e.zone)
			return &mdt{"date", time.Date(l.Year(), l.Month(), l.Day(), 0, 0, 0, 0, time.UTC)}, nil
		}
		return nil, notRec
	case "time":
		switch v.Kind {
		case "timestamp":
			return &mdt{"time", time.Date(0, 1, 1, t.Hour(), t.Minute(), t.Second(), t.Nanosecond(), time.UTC)}, nil
		case "timetz":
			if !e.useTZ {
				return nil, needTZ()
			}
			// the documented cast keeps the local time of the value
			return &mdt{"time", time.Date(0, 1, 1, t.Hour(), t.Minute(), t.Second(), t.Nanosecond(), time.UTC)}, nil
		case "timestamptz":
			if !e.useTZ {
				return nil, needTZ()
			}
			l := t.In(e.zone)
			return &mdt{"time", time.Date(0, 1, 1, l.Hour(), l.Minute(), l.Second(), l.Nanosecond(), time.UTC)}, nil
		}
		return nil, notRec
	case "timetz":
		switch v.Kind {
		case "time":
			if !e.useTZ {
				return nil, needTZ()
			}
			if named {
				off, ok := todaysOffset(e.zone, t)
				if !ok {
					return nil, openErr("time -> timetz under a named zone depends on today's date, and the zone's offset at that time of day differs between yesterday, today and tomorrow")
				}
				return &mdt{"timetz", time.Date(0, 1, 1, t.Hour(), t.Minute(), t.Second(), t.Nanosecond(), off)}, nil
			}
			return &mdt{"timetz", time.Date(0, 1, 1, t.Hour(), t.Minute(), t.Second(), t.Nanosecond(), fixedOf(time.Date(2000, 1, 1, 0, 0, 0, 0, e.zone)))}, nil
		case "timestamptz":
			l := t.In(e.zone)
			return &mdt{"timetz", time.Date(0, 1, 1, l.Hour(), l.Minute(), l.Second(), l.Nanosecond(), fixedOf(l))}, nil
		}
		return nil, notRec
	case "timestamp":
		switch v.Kind {
		case "date":
			return &mdt{"timestamp", t}, nil
		case "timestamptz":
			if !e.useTZ {
				return nil, needTZ()
			}
			l := t.In(e.zone)
			return &mdt{"timestamp", time.Date(l.Year(), l.Month(), l.Day(), l.Hour(), l.Minute(), l.Second(), l.Nanosecond(), time.UTC)}, nil
		}
		return nil, notRec
	case "timestamptz":
		switch v.Kind {
		case "date", "timestamp":
			if !e.useTZ {
				return nil, needTZ()
			}
			l := time.Date(t.Year(), t.Month(), t.Day(), t.Hour(), t.Minute(), t.Second(), t.Nanosecond(), e.zone)
			return &mdt{"timestamptz", l.In(fixedOf(l))}, nil
		}
		return nil, notRec
	}
	return nil, openErr("model: unknown cast")
}

// compareDT: (cmp, comparable, error)
func (m *Model) compareDT(a, b *mdt) (int, bool, *merr) {
	e := m.env
	isTimeish := func(k string) bool { return k == "time" || k == "timetz" }
	if isTimeish(a.Kind) != isTimeish(b.Kind) {
		return 0, false, nil
	}
	needTZ := func() (int, bool, *merr) {
		return 0, false, hardErr("cannot convert value from %s to %s without time zone usage", a.Kind, b.Kind)
	}
	local := func(d *mdt) time.Time { // zone-less value read in the context zone
		t := d.T
		return time.Date(t.Year(), t.Month(), t.Day(), t.Hour(), t.Minute(), t.Second(), t.Nanosecond(), e.zone)
	}
	named := e.zone != time.UTC && e.zone.String() != ""
	if isTimeish(a.Kind) {
		switch {
		case a.Kind == "time" && b.Kind == "time":
			return a.T.Compare(b.T), true, nil
		case a.Kind == "timetz" && b.Kind == "timetz":
			return cmpTimeTZ(a.T, b.T), true, nil
		}
		if !e.useTZ {
			return needTZ()
		}
		off := fixedOf(time.Date(2000, 1, 1, 0, 0, 0, 0, e.zone))
		if named {
			zl := a
			if zl.Kind != "time" {
				zl = b
			}
			var ok bool
			if off, ok = todaysOffset(e.zone, zl.T); !ok {
				return 0, false, openErr("time vs timetz under a named zone depends on today's date, and the zone's offset at that time of day differs between yesterday, today and tomorrow")
			}
		}
		conv := func(d *mdt) time.Time {
			if d.Kind == "timetz" {
				return d.T
			}
			return time.Date(0, 1, 1, d.T.Hour(), d.T.Minute(), d.T.Second(), d.T.Nanosecond(), off)
		}
		return cmpTimeTZ(conv(a), conv(b)), true, nil
	}
	aTZ, bTZ := a.Kind == "timestamptz", b.Kind == "timestamptz"
	switch {
	case !aTZ && !bTZ:
		return a.T.Compare(b.T), true, nil
	case aTZ && bTZ:
		return a.T.Compare(b.T), true, nil
	}
	if !e.useTZ {
		return needTZ()
	}
	ia, ib := a.T, b.T
	if !aTZ {
		ia = local(a)
	}
	if !bTZ {
		ib = local(b)
	}
	return ia.Compare(ib), true, nil
}

// cmpTimeTZ orders by instant, equal instants by offset (larger offset first).
func cmpTimeTZ(a, b time.Time) int {
	if c := a.UTC().Compare(b.UTC()); c != 0 {
		return c
	}
	_, oa := a.Zone()
	_, ob := b.Zone()
	switch {
	case oa > ob:
		return -1
	case oa < ob:
		return 1
	}
	return 0
}

// ---------------------------------------------------------------------------
// rendering of model results (same canonical text as Render)

func mRender(v any) string {
	switch x := v.(type) {
	case *mdt:
		switch x.Kind {
		case "timestamptz":
			return "<timestamptz " + x.String() + " @" + x.T.UTC().Format(time.RFC3339Nano) + ">"
		}
		return "<" + x.Kind + " " + x.String() + ">"
	case []any:
		parts := make([]string, len(x))
		for i, e := range x {
			parts[i] = mRender(e)
		}
		return "[" + strings.Join(parts, ",") + "]"
	case map[string]any:
		ks := sortedKeys(x)
		sort.Strings(ks)
		var parts []string
		triple := isTriple(x)
		for _, k := range ks {
			if triple && k == "id" {
				continue
			}
			q, _ := json.Marshal(k)
			parts = append(parts, string(q)+":"+mRender(x[k]))
		}
		return "{" + strings.Join(parts, ",") + "}"
	}
	return Render(v, true)
}

func mRenderSeq(items []any) []string {
	out := make([]string, len(items))
	for i, it := range items {
		out[i] = mRender(it)
	}
	return out
}
