package checks

// C03 — every permitted spelling of a path parses to the tree the grammar
// assigns it.

import (
	"fmt"
	"math/big"
	"strings"
	"testing"
	"unicode/utf16"

	"pgregory.net/rapid"
)

// SpellCase: an abstract path (normal form) and one spelling of it.
type SpellCase struct {
	Path *Path  `json:"path"`
	Text string `json:"text"`
	Why  string `json:"why,omitempty"`
}

// continuations of the same text: what follows the last token must not
// change any token's value.
var continuations = []struct{ name, pre, post string }{
	{"eof", "", ""},
	{"blank", "", " "},
	{"newline", "", "\n"},
	{"comment", "", "/* c */"},
	{"paren", "(", ")"},
	{"paren_blank", "( ", " )"},
}

var checkSpelling = register("c03.spelling", func(c SpellCase) *Violation {
	want := c.Path.Root
	wantPred := want.IsPred() && want.Next == nil
	for _, k := range continuations {
		text := k.pre + c.Text + k.post
		if k.pre != "" {
			// the mode prefix cannot be parenthesised: wrap only the expression
			text = wrapAfterMode(c.Text, k.pre, k.post)
		}
		p, err, pan := ParseSafe(text)
		if pan != "" {
			return violf("Parse(%q) [%s] panicked: %s", text, k.name, pan)
		}
		if err != nil {
			return violf("permitted spelling %q [%s] of %s was rejected: %v", text, k.name, c.Path.Canon(), err)
		}
		got := PathFromAST(p.AST)
		if d := Diff(want, got.Root); d != "" {
			return violf("spelling %q [%s] of %s parsed to a different tree: %s (canonical print %q)", text, k.name, c.Path.Canon(), d, p.String())
		}
		if got.Strict != c.Path.Strict {
			return violf("spelling %q [%s]: strict=%v, want %v", text, k.name, got.Strict, c.Path.Strict)
		}
		if p.IsPredicate() != wantPred {
			return violf("spelling %q [%s]: IsPredicate=%v, want %v", text, k.name, p.IsPredicate(), wantPred)
		}
		op := "@?"
		if wantPred {
			op = "@@"
		}
		if p.PgIndexOperator() != op {
			return violf("spelling %q [%s]: PgIndexOperator=%q, want %q", text, k.name, p.PgIndexOperator(), op)
		}
	}
	return nil
})

// wrapAfterMode parenthesises the part of text after an optional mode keyword.
func wrapAfterMode(text, pre, post string) string {
	trim := strings.TrimLeft(text, " \t\r\n")
	lead := text[:len(text)-len(trim)]
	low := strings.ToLower(trim)
	for _, kw := range []string{"strict", "lax"} {
		if strings.HasPrefix(low, kw) && len(trim) > len(kw) {
			next := trim[len(kw)]
			if next == ' ' || next == '\t' || next == '\n' || next == '\r' || next == '/' {
				return lead + trim[:len(kw)] + " " + pre + trim[len(kw):] + post
			}
		}
	}
	if strings.HasPrefix(trim, "/*") {
		// leading comment(s) before a possible mode keyword: keep it simple, no wrap
		return text
	}
	return lead + pre + trim + post
}

// ---------------------------------------------------------------------------
// exhaustive sub-spaces

var escRunes = []rune{0x7e, 0x7ff, 0x800, 0xd7ff, 0xe000, 0xe001, 0xfdd0, 0xfffe, 0x1ffff, 0xfffff, 0x100000, 'a', 'Z', '_', '5', ' ', '/', '"', '\\', '\b', '\f', '\n', '\r', '\t', '\v', 0x01, 0x1b, 0x7f, 0x80, 0xa0, 0xe9, 0xff, 0x100, 0x3bb, 0x2028, 0xfeff, 0xfffd, 0xffff, 0x10000, 0x1d11e, 0x1f600, 0xe0001, 0x10ffff}

// escapeForms lists every documented escape spelling of r.
func escapeForms(r rune, ident bool) []string {
	var forms []string
	if !ident {
		switch r {
		case '\b':
			forms = append(forms, `\b`)
		case '\f':
			forms = append(forms, `\f`)
		case '\n':
			forms = append(forms, `\n`)
		case '\r':
			forms = append(forms, `\r`)
		case '\t':
			forms = append(forms, `\t`)
		case '\v':
			forms = append(forms, `\v`)
		case '"':
			forms = append(forms, `\"`)
		case '\\':
			forms = append(forms, `\\`)
		}
		if r <= 0xff {
			forms = append(forms, fmt.Sprintf(`\x%02x`, r), fmt.Sprintf(`\x%02X`, r))
		}
	}
	if r <= 0xffff {
		forms = append(forms, fmt.Sprintf(`\u%04x`, r), fmt.Sprintf(`\u%04X`, r))
	} else {
		h, l := utf16.EncodeRune(r)
		forms = append(forms, fmt.Sprintf(`\u%04x\u%04x`, h, l), fmt.Sprintf(`\u%04X\u%04X`, h, l))
	}
	forms = append(forms, fmt.Sprintf(`\u{%x}`, r), fmt.Sprintf(`\u{%X}`, r), fmt.Sprintf(`\u{%06x}`, r))
	return forms
}

func identRune(r rune, first bool) bool {
	switch {
	case r == '_' || (r >= 'a' && r <= 'z') || (r >= 'A' && r <= 'Z'):
		return true
	case r >= '0' && r <= '9':
		return !first
	case r == 0xe9 || r == 0x3bb || r == 0x100:
		return true
	}
	return false
}

// escapeCases: every escape form x {first, middle, last char} x {string,
// quoted key, quoted variable, bare key, regex pattern}.
func escapeCases() []SpellCase {
	var out []SpellCase
	for _, r := range escRunes {
		raw := string(r)
		for pos := 0; pos < 3; pos++ {
			val := []string{raw + "xy", "x" + raw + "y", "xy" + raw}[pos]
			forms := escapeForms(r, false)
			if r >= 0x20 && r != '"' && r != '\\' && r != 0x7f {
				forms = append(forms, raw)
			}
			for _, f := range forms {
				sp := []string{f + "xy", "x" + f + "y", "xy" + f}[pos]
				q := `"` + sp + `"`
				out = append(out,
					SpellCase{Path: &Path{Root: &Node{K: KStr, S: val}}, Text: q, Why: "string literal"},
					SpellCase{Path: &Path{Root: &Node{K: KRoot, Next: &Node{K: KKey, S: val}}}, Text: "$." + q, Why: "quoted key"},
					SpellCase{Path: &Path{Root: &Node{K: KVar, S: val}}, Text: "$" + q, Why: "quoted variable"},
					SpellCase{Path: &Path{Root: &Node{K: KBin, S: "starts with", A: &Node{K: KRoot}, B: &Node{K: KStr, S: val}}}, Text: "$ starts with " + q, Why: "starts with initial"},
					SpellCase{Path: &Path{Root: &Node{K: KRoot, Next: &Node{K: KDT, S: "datetime", A: &Node{K: KStr, S: val}}}}, Text: "$.datetime(" + q + ")", Why: "datetime template"},
				)
			}
			if identRune(r, pos == 0) {
				for _, f := range append(escapeForms(r, true), raw) {
					sp := []string{f + "xy", "x" + f + "y", "xy" + f}[pos]
					out = append(out,
						SpellCase{Path: &Path{Root: &Node{K: KRoot, Next: &Node{K: KKey, S: val}}}, Text: "$." + sp, Why: "bare key"},
						SpellCase{Path: &Path{Root: &Node{K: KRoot, Next: &Node{K: KKey, S: val, Next: &Node{K: KKey, S: "q"}}}}, Text: "$." + sp + ".q", Why: "bare key followed by an accessor"},
					)
				}
			}
		}
	}
	return out
}

// numberForms: spelled literal -> exact value, decoded independently here.
var intForms = []string{"0", "7", "10", "1_0", "1_000_000", "0x1F", "0X1f", "0xff", "0x1EEE_FFFF", "0b101", "0B1_1", "0b100101", "0o17", "0O7", "0o273", "0o7_7", "2147483647", "2147483648", "9223372036854775807", "0x7fffffffffffffff", "0x7FFF_FFFF_FFFF_FFFF", "0b111111111111111111111111111111111111111111111111111111111111111", "0o777777777777777777777"}
var numForms = []string{".5", "5.", "0.5", "0.", "1.5e-3", "1E+2", "1e5", "1e0", "10E-1", "1_0.5", "1.2_5", "1e1_0", "1_0e1", "0.1", "1.0", "4.0", "1.50", "123.456", "1e21", "1e-7", "1.7976931348623157e308", "5e-324", ".5e1", "5.e1", "0e0", "9007199254740993.0", "1_0.", "0.0_1", "4611686018427387904.0", "4.611686018427387904e18", "1234567890123456789.0", "36028797018963967.0", "27000000001e8", "9223372036854775807.0", "9200000000000000000.", "9223372036854775000.0", "1e19", "100000000000000100.", "9007199254740992.0", "18014398509481985."}

func ratOfLiteral(s string) *big.Rat {
	t := strings.ReplaceAll(s, "_", "")
	low := strings.ToLower(t)
	switch {
	case strings.HasPrefix(low, "0x"):
		i, _ := new(big.Int).SetString(t[2:], 16)
		return new(big.Rat).SetInt(i)
	case strings.HasPrefix(low, "0o"):
		i, _ := new(big.Int).SetString(t[2:], 8)
		return new(big.Rat).SetInt(i)
	case strings.HasPrefix(low, "0b"):
		i, _ := new(big.Int).SetString(t[2:], 2)
		return new(big.Rat).SetInt(i)
	}
	if strings.HasPrefix(t, ".") {
		t = "0" + t
	}
	t = strings.Replace(t, ".e", ".0e", 1)
	t = strings.Replace(t, ".E", ".0E", 1)
	if strings.HasSuffix(t, ".") {
		t += "0"
	}
	r, ok := new(big.Rat).SetString(t)
	if !ok {
		panic("harness: cannot decode literal " + s)
	}
	return r
}

func numberCases() []SpellCase {
	var out []SpellCase
	mk := func(lit string, isInt bool) (pos, neg *Node) {
		r := ratOfLiteral(lit)
		if isInt {
			v := r.Num().Int64()
			return &Node{K: KInt, I: v}, &Node{K: KInt, I: -v}
		}
		// nearest double of the exact value
		f, _ := new(big.Float).SetPrec(2000).SetRat(r).Float64()
		return &Node{K: KNum, F: f}, &Node{K: KNum, F: -f}
	}
	add := func(lit string, isInt bool) {
		pos, neg := mk(lit, isInt)
		c := func(n *Node) *Node { return n.Clone() }
		out = append(out,
			SpellCase{Path: &Path{Root: c(pos)}, Text: lit, Why: "number alone"},
			SpellCase{Path: &Path{Root: c(neg)}, Text: "-" + lit, Why: "negative number"},
			SpellCase{Path: &Path{Root: c(neg)}, Text: "- " + lit, Why: "negative number, blank after sign"},
			SpellCase{Path: &Path{Root: c(pos)}, Text: "+" + lit, Why: "explicit plus"},
			SpellCase{Path: &Path{Root: c(pos)}, Text: "- -" + lit, Why: "double negation folds"},
			SpellCase{Path: &Path{Root: c(neg)}, Text: "+-+" + lit, Why: "nested signs fold"},
			SpellCase{Path: &Path{Root: &Node{K: KRoot, Next: &Node{K: KIdx, Subs: []Sub{{From: c(pos)}}}}}, Text: "$[" + lit + "]", Why: "subscript"},
			SpellCase{Path: &Path{Root: &Node{K: KRoot, Next: &Node{K: KIdx, Subs: []Sub{{From: c(pos), To: c(pos)}}}}}, Text: "$[" + lit + " to " + lit + "]", Why: "subscript range"},
			SpellCase{Path: &Path{Root: &Node{K: KBin, S: "==", A: &Node{K: KRoot}, B: c(pos)}}, Text: "$ == " + lit, Why: "comparison operand"},
			SpellCase{Path: &Path{Root: &Node{K: KBin, S: "==", A: &Node{K: KRoot}, B: c(pos)}}, Text: "$==" + lit, Why: "comparison operand, no blanks"},
			SpellCase{Path: &Path{Root: &Node{K: KBin, S: "*", A: c(pos), B: c(neg)}}, Text: lit + " * -" + lit, Why: "arithmetic operands"},
			SpellCase{Path: &Path{Root: &Node{K: pos.K, I: pos.I, F: pos.F, Next: &Node{K: KMethod, S: "type"}}}, Text: "(" + lit + ").type()", Why: "parenthesised with method"},
			SpellCase{Path: &Path{Root: &Node{K: pos.K, I: pos.I, F: pos.F, Next: &Node{K: KMethod, S: "type"}}}, Text: lit + " .type()", Why: "blank then method"},
			SpellCase{Path: &Path{Root: &Node{K: KUn, S: "-", A: &Node{K: pos.K, I: pos.I, F: pos.F, Next: &Node{K: KMethod, S: "abs"}}}}, Text: "-" + lit + " .abs()", Why: "sign applies to the method result"},
		)
		if isInt {
			v := pos.I
			if v <= 4 {
				out = append(out, SpellCase{Path: &Path{Root: &Node{K: KRoot, Next: &Node{K: KAny, First: v, Last: v}}}, Text: "$.**{" + lit + "}", Why: ".** level"},
					SpellCase{Path: &Path{Root: &Node{K: KRoot, Next: &Node{K: KAny, First: v, Last: -1}}}, Text: "$.**{" + lit + " to last}", Why: ".** level range"})
			}
			if v <= 2147483647 {
				out = append(out,
					SpellCase{Path: &Path{Root: &Node{K: KRoot, Next: &Node{K: KDecimal, A: c(pos), B: c(neg)}}}, Text: "$.decimal(" + lit + ",-" + lit + ")", Why: "decimal arguments"},
					SpellCase{Path: &Path{Root: &Node{K: KRoot, Next: &Node{K: KDT, S: "time", A: c(pos)}}}, Text: "$.time(" + lit + ")", Why: "time precision"})
			}
		}
	}
	for _, l := range intForms {
		add(l, true)
	}
	// systematic decimal forms: integer part x fraction x exponent
	for _, ip := range []string{"0", "7", "10", "1_0", ""} {
		for _, fp := range []string{"", ".", ".5", ".05", ".5_0", ".0"} {
			for _, ex := range []string{"", "e8", "E+9", "e-9", "e08", "e1_0", "E0", "e-08"} {
				lit := ip + fp + ex
				if ip == "" && (fp == "" || fp == ".") {
					continue
				}
				if fp == "" && ex == "" {
					continue // plain integers are covered above
				}
				add(lit, false)
			}
		}
	}
	for _, l := range numForms {
		add(l, false)
	}
	// .** levels in every integer form
	for _, l := range []string{"0x10", "1_0", "0b11", "0o7", "16", "0X1_0"} {
		v := ratOfLiteral(l).Num().Int64()
		out = append(out, SpellCase{Path: &Path{Root: &Node{K: KRoot, Next: &Node{K: KAny, First: v, Last: v}}}, Text: "$.**{" + l + "}", Why: ".** level in a non-decimal form"},
			SpellCase{Path: &Path{Root: &Node{K: KRoot, Next: &Node{K: KAny, First: 1, Last: v}}}, Text: "$.**{1 to " + l + "}", Why: ".** level in a non-decimal form"})
	}
	return out
}

// opChainCases: all unparenthesised chains of three binary operators, with
// the tree the documented precedence/associativity table assigns them.
func opChainCases() []SpellCase {
	var out []SpellCase
	operand := func(i int) *Node { return &Node{K: KInt, I: int64(i + 1)} }
	prec := map[string]int{"||": 1, "&&": 2, "==": 4, "<": 4, "+": 5, "-": 5, "*": 6, "/": 6, "%": 6}
	// arithmetic chains (all 5^3), optionally with a leading unary minus on $
	for _, o1 := range arithOps {
		for _, o2 := range arithOps {
			for _, o3 := range arithOps {
				ops := []string{o1, o2, o3}
				text := fmt.Sprintf("1 %s 2 %s 3 %s 4", o1, o2, o3)
				out = append(out, SpellCase{Path: &Path{Root: climb([]*Node{operand(0), operand(1), operand(2), operand(3)}, ops, prec)}, Text: text, Why: "arithmetic precedence"})
				// tight spelling and unary operand
				un := &Node{K: KUn, S: "-", A: &Node{K: KRoot}}
				text2 := fmt.Sprintf("-$%s2%s3%s4", o1, o2, o3)
				if o1 == "/" {
					text2 = fmt.Sprintf("-$ %s2%s3%s4", o1, o2, o3)
				}
				out = append(out, SpellCase{Path: &Path{Root: climb([]*Node{un, operand(1), operand(2), operand(3)}, ops, prec)}, Text: text2, Why: "unary minus binds tighter than binary operators"})
			}
		}
	}
	// comparison operands are arithmetic; connectives nest by precedence
	cmp := func(a, b *Node) *Node { return &Node{K: KBin, S: "==", A: a, B: b} }
	atoms := []*Node{cmp(operand(0), operand(0)), cmp(operand(1), operand(1)), cmp(operand(2), operand(2)), cmp(operand(3), operand(3))}
	atomText := []string{"1 == 1", "2 == 2", "3 == 3", "4 == 4"}
	conns := []string{"&&", "||"}
	for _, c1 := range conns {
		for _, c2 := range conns {
			for _, c3 := range conns {
				ops := []string{c1, c2, c3}
				text := strings.Join([]string{atomText[0], c1, atomText[1], c2, atomText[2], c3, atomText[3]}, " ")
				out = append(out, SpellCase{Path: &Path{Root: climb(cloneAll(atoms), ops, prec)}, Text: text, Why: "connective precedence"})
				// with a negation in front of the second operand
				atoms2 := cloneAll(atoms)
				atoms2[1] = &Node{K: KUn, S: "!", A: atoms2[1]}
				text = strings.Join([]string{atomText[0], c1, "!(" + atomText[1] + ")", c2, atomText[2], c3, atomText[3]}, " ")
				out = append(out, SpellCase{Path: &Path{Root: climb(atoms2, ops, prec)}, Text: text, Why: "negation binds tighter than connectives"})
			}
		}
	}
	// arithmetic inside comparisons inside connectives
	for _, a := range arithOps {
		for _, c := range []string{"==", "!=", "<", "<=", ">", ">="} {
			for _, k := range conns {
				l := &Node{K: KBin, S: c, A: &Node{K: KBin, S: a, A: operand(0), B: operand(1)}, B: &Node{K: KBin, S: a, A: operand(2), B: operand(3)}}
				r := &Node{K: KBin, S: c, A: &Node{K: KRoot}, B: &Node{K: KInt, I: -1}}
				text := fmt.Sprintf("1 %s 2 %s 3 %s 4 %s $ %s -1", a, c, a, k, c)
				out = append(out, SpellCase{Path: &Path{Root: &Node{K: KBin, S: k, A: l, B: r}}, Text: text, Why: "arithmetic < comparison < connective"})
			}
		}
	}
	// accessors bind tighter than unary sign
	out = append(out,
		SpellCase{Path: &Path{Root: &Node{K: KUn, S: "-", A: &Node{K: KRoot, Next: &Node{K: KKey, S: "a", Next: &Node{K: KMethod, S: "abs"}}}}}, Text: "-$.a.abs()", Why: "accessors bind tighter than sign"},
		SpellCase{Path: &Path{Root: &Node{K: KUn, S: "-", A: &Node{K: KRoot, Next: &Node{K: KKey, S: "a"}}, Next: &Node{K: KMethod, S: "abs"}}}, Text: "(-$.a).abs()", Why: "parenthesised sign then method"},
		SpellCase{Path: &Path{Root: &Node{K: KInt, I: -1, Next: &Node{K: KMethod, S: "abs"}}}, Text: "(-1).abs()", Why: "negative literal then method"},
		SpellCase{Path: &Path{Root: &Node{K: KBin, S: "+", A: &Node{K: KRoot}, B: &Node{K: KInt, I: 1}, Next: &Node{K: KMethod, S: "abs"}}}, Text: "($ + 1).abs()", Why: "parenthesised arithmetic then method"},
		SpellCase{Path: &Path{Root: &Node{K: KBin, S: "+", A: &Node{K: KRoot}, B: &Node{K: KInt, I: 1, Next: &Node{K: KMethod, S: "abs"}}}}, Text: "$ + 1 .abs()", Why: "method binds to the right operand"},
	)
	return out
}

func cloneAll(ns []*Node) []*Node {
	out := make([]*Node, len(ns))
	for i, n := range ns {
		out[i] = n.Clone()
	}
	return out
}

// climb builds the left-associative precedence tree for operands/ops.
func climb(operands []*Node, ops []string, prec map[string]int) *Node {
	pos := 0
	var parse func(minPrec int) *Node
	parse = func(minPrec int) *Node {
		left := operands[pos]
		for pos < len(ops) && prec[ops[pos]] >= minPrec {
			op := ops[pos]
			pos++
			right := parse(prec[op] + 1)
			left = &Node{K: KBin, S: op, A: left, B: right}
		}
		return left
	}
	return parse(0)
}

// keywordKeyCases: every keyword is also a legal bare key; keyword case.
func keywordCases() []SpellCase {
	kws := []string{"is", "to", "abs", "lax", "date", "flag", "last", "size", "time", "type", "with", "floor", "bigint", "double", "exists", "number", "starts", "strict", "string", "boolean", "ceiling", "decimal", "integer", "time_tz", "unknown", "datetime", "keyvalue", "timestamp", "like_regex", "timestamp_tz", "true", "false", "null"}
	var out []SpellCase
	for _, k := range kws {
		variants := []string{k}
		if k != "true" && k != "false" && k != "null" {
			variants = append(variants, strings.ToUpper(k), strings.ToUpper(k[:1])+k[1:])
		}
		for _, v := range variants {
			out = append(out,
				SpellCase{Path: &Path{Root: &Node{K: KRoot, Next: &Node{K: KKey, S: v}}}, Text: "$." + v, Why: "keyword as bare key keeps its spelling"},
				SpellCase{Path: &Path{Root: &Node{K: KRoot, Next: &Node{K: KKey, S: v, Next: &Node{K: KKey, S: v}}}}, Text: "$." + v + "." + v, Why: "keyword as bare key twice"},
				SpellCase{Path: &Path{Strict: true, Root: &Node{K: KRoot, Next: &Node{K: KKey, S: v, Next: &Node{K: KIdx, Subs: []Sub{{From: &Node{K: KLast}}}}}}}, Text: "strict $." + v + "[last]", Why: "keyword as bare key before a subscript"},
			)
		}
	}
	for _, m := range methods {
		for _, v := range []string{m, strings.ToUpper(m), strings.ToUpper(m[:1]) + m[1:]} {
			out = append(out, SpellCase{Path: &Path{Root: &Node{K: KRoot, Next: &Node{K: KMethod, S: m}}}, Text: "$." + v + "()", Why: "method keyword case"})
		}
	}
	for _, m := range defDTs {
		for _, v := range []string{m, strings.ToUpper(m)} {
			out = append(out, SpellCase{Path: &Path{Root: &Node{K: KRoot, Next: &Node{K: KDT, S: m}}}, Text: "$." + v + "()", Why: "datetime method keyword case"})
		}
	}
	// true/false/null only in lower case: other cases are identifiers, so only legal as keys
	out = append(out,
		SpellCase{Path: &Path{Root: &Node{K: KBin, S: "==", A: &Node{K: KRoot}, B: &Node{K: KTrue}}}, Text: "$ == true", Why: "true literal"},
		SpellCase{Path: &Path{Root: &Node{K: KBin, S: "!=", A: &Node{K: KNull}, B: &Node{K: KFalse}}}, Text: "null <> false", Why: "<> spells !="},
		SpellCase{Path: &Path{Root: &Node{K: KBin, S: "!=", A: &Node{K: KNull}, B: &Node{K: KFalse}}}, Text: "null != false", Why: "!="},
		SpellCase{Path: &Path{Root: &Node{K: KIsUnknown, A: &Node{K: KBin, S: "==", A: &Node{K: KRoot}, B: &Node{K: KInt, I: 1}}}}, Text: "($ == 1) IS UNKNOWN", Why: "is unknown keyword case"},
		SpellCase{Path: &Path{Root: &Node{K: KExists, A: &Node{K: KRoot}}}, Text: "EXISTS($)", Why: "exists keyword case"},
		SpellCase{Path: &Path{Root: &Node{K: KBin, S: "starts with", A: &Node{K: KRoot}, B: &Node{K: KVar, S: "v"}}}, Text: "$ STARTS WITH $v", Why: "starts with keyword case"},
		SpellCase{Path: &Path{Root: &Node{K: KRegex, A: &Node{K: KRoot}, S: "a", Flags: "i"}}, Text: `$ LIKE_REGEX "a" FLAG "i"`, Why: "like_regex keyword case"},
		SpellCase{Path: &Path{Root: &Node{K: KRoot, Next: &Node{K: KIdx, Subs: []Sub{{From: &Node{K: KInt, I: 0}, To: &Node{K: KLast}}}}}}, Text: "$[0 TO LAST]", Why: "to/last keyword case"},
	)
	return out
}

// safeLetters lists the code points of isSafeLetter.
var safeLetters = func() []rune {
	var out []rune
	for r := rune(0x100); r <= 0xD7A3; r++ {
		if isSafeLetter(r) {
			out = append(out, r)
		}
	}
	return out
}()

// letterCases: a bare key, a key suffix and a variable name for every letter of
// the small blocks, and for the large blocks (CJK, Hangul) every letter whose
// low byte is not an ASCII letter or digit (a lexer that looks at a truncated
// rune would take it for white space, a quote, an operator ...) plus a sample.
func letterCases() []SpellCase {
	var out []SpellCase
	// identifier-continue characters that are not letters: combining marks (Mn, Mc), decimal digits of
	// other scripts (Nd), connector punctuation (Pc) - all XID_Continue, after a letter
	// ... and the Other_ID_Continue characters (U+00B7 middle dot - the only one in Latin-1 -, U+0387, the Ethiopic
	// digits U+1369..1371, U+19DA), which are neither letters nor marks nor digits
	for _, w := range []string{"नाम", "cafe\u0301", "น้ำ", "தமிழ்", "a\u0663", "a\u203fb", "é\u0300x", "ক্ষ", "한\u0301", "x\u0e31y", "a\u0966", "q\u20d7", "col\u00b7lecci\u00f3", "a\u00b7", "a\u0387b", "a\u1369", "a\u1371z", "x\u19da"} {
		key := func(k string) *Path { return &Path{Root: &Node{K: KRoot, Next: &Node{K: KKey, S: k}}} }
		out = append(out,
			SpellCase{Path: key(w), Text: "$." + w, Why: "identifier with combining marks / non-letter continue characters"},
			SpellCase{Path: key(w + "z"), Text: "$ . " + w + "z", Why: "identifier with combining marks, letter after"},
			SpellCase{Path: &Path{Root: &Node{K: KVar, S: w}}, Text: "$" + w, Why: "variable with combining marks"},
			SpellCase{Path: &Path{Root: &Node{K: KBin, S: "==", A: &Node{K: KRoot, Next: &Node{K: KKey, S: w}}, B: &Node{K: KInt, I: 1}}}, Text: "$." + w + "==1", Why: "identifier with combining marks before an operator"},
		)
	}
	for i, r := range safeLetters {
		if r >= 0x4E00 {
			lo := byte(r)
			alnum := (lo >= '0' && lo <= '9') || (lo >= 'a' && lo <= 'z') || (lo >= 'A' && lo <= 'Z') || lo >= 0x80
			if alnum && i%97 != 0 {
				continue
			}
			if !alnum && (r>>8)%5 != 0 {
				continue
			}
		}
		l := string(r)
		key := func(k string) *Path { return &Path{Root: &Node{K: KRoot, Next: &Node{K: KKey, S: k}}} }
		out = append(out,
			SpellCase{Path: key(l + "aj"), Text: "$." + l + "aj", Why: "letter first"},
			SpellCase{Path: key("a" + l), Text: "$.a" + l, Why: "letter last"},
			SpellCase{Path: key(l), Text: "$ . " + l, Why: "letter alone after blanks"},
			SpellCase{Path: &Path{Root: &Node{K: KVar, S: l + "x"}}, Text: "$" + l + "x", Why: "variable"},
			SpellCase{Path: &Path{Root: &Node{K: KBin, S: "==", A: &Node{K: KRoot, Next: &Node{K: KKey, S: l}}, B: &Node{K: KStr, S: l}}}, Text: "$." + l + "==\"" + l + "\"", Why: "key then operator"},
		)
	}
	return out
}

// LongNumCase: a numeric literal Head + Zeros x "0" + Tail whose mantissa has hundreds of digits. Go's
// strconv.ParseFloat keeps 800 digits of a mantissa and, when no decimal point lies within them, loses count
// of the digits it drops: "1" + 800 x "0" + "e-800" (the number 1) parses as 0.1 (open finding D58).
type LongNumCase struct {
	Head  string `json:"head"`
	Zeros int    `json:"zeros"`
	Tail  string `json:"tail"`
}

func (c LongNumCase) literal() string { return c.Head + strings.Repeat("0", c.Zeros) + c.Tail }

func (c LongNumCase) mantissaDigits() int {
	m := c.literal()
	if i := strings.IndexAny(m, "eE"); i >= 0 {
		m = m[:i]
	}
	return len(strings.ReplaceAll(strings.ReplaceAll(m, ".", ""), "_", ""))
}

func init() {
	quirkProbes["parsefloat_long_mantissa"] = func() bool {
		p, err, _ := ParseSafe("1" + strings.Repeat("0", 800) + "e-800")
		if err != nil {
			return false
		}
		n := PathFromAST(p.AST).Root
		return n.K == KNum && n.F != 1
	}
}

var c03Ev *Ev

var checkLongNumber = register("c03.longnumber", func(c LongNumCase) *Violation {
	lit := c.literal()
	f, _ := new(big.Float).SetPrec(4000).SetRat(ratOfLiteral(lit)).Float64()
	what := fmt.Sprintf("%s + %d x \"0\" + %s", c.Head, c.Zeros, c.Tail)
	for _, form := range []struct {
		text string
		want *Node
	}{
		{lit, &Node{K: KNum, F: f}},
		{"-" + lit, &Node{K: KNum, F: -f}},
		{"$ == " + lit, &Node{K: KBin, S: "==", A: &Node{K: KRoot}, B: &Node{K: KNum, F: f}}},
		{"(" + lit + ").type()", &Node{K: KNum, F: f, Next: &Node{K: KMethod, S: "type"}}},
	} {
		p, err, pan := ParseSafe(form.text)
		if pan != "" {
			return violf("Parse of the numeric literal %s panicked: %.200s", what, pan)
		}
		if err != nil {
			return violf("the numeric literal %s (value %v) was rejected: %.200v", what, f, err)
		}
		if d := Diff(form.want, PathFromAST(p.AST).Root); d != "" {
			ev := c03Ev
			if ev == nil {
				ev = &Ev{Prop: "C03"}
			}
			if c.mantissaDigits() > 800 && ev.quirk("parsefloat_long_mantissa") {
				ev.KFCase("D58")
				return nil
			}
			return violf("the numeric literal %s denotes %v but parsed to a different tree: %.300s", what, f, d)
		}
	}
	return nil
})

func TestC03(t *testing.T) {
	ev := newEv(t, "C03")
	c03Ev = ev
	ev.replayTier(t)
	_ = ev.quirk("parsefloat_long_mantissa") // open finding D58: prints its KNOWN-FINDING line while the probe reproduces it
	t.Run("long_numbers", func(t *testing.T) {
		b := ev.enum(t)
		var cs []LongNumCase
		for _, z := range []int{300, 700, 798, 799, 800, 801, 810, 1500, 100000} {
			cs = append(cs, LongNumCase{"1", z, fmt.Sprintf("e-%d", z)}, LongNumCase{"25", z, fmt.Sprintf("e-%d", z+1)}, LongNumCase{"1", z, fmt.Sprintf(".5e-%d", z)}, LongNumCase{"0.", z, "1e" + fmt.Sprint(z)},
				LongNumCase{"1.", z, "1"}, LongNumCase{"7", z, fmt.Sprintf("E-%d", z-3)}, LongNumCase{"1_0", z, fmt.Sprintf("e-%d", z)}, LongNumCase{strings.Repeat("123456789", 100), z, fmt.Sprintf("e-%d", z+890)})
		}
		for i, c := range cs {
			if !mine(i) {
				continue
			}
			ev.Eval(fmt.Sprintf("longnum:%d:%.2s:%d:%s", len(c.Head), c.Head, c.Zeros, c.Tail), true)
			if len(c.Head) < 20 {
				ev.Sample("long_numbers", c)
			}
			if !b.Check("c03.longnumber", c, checkLongNumber(c)) {
				return
			}
		}
		ev.Exhaustive("numeric_literals_with_hundreds_of_digits", int64(len(cs)))
	})

	enumerate := func(name string, cs []SpellCase) {
		t.Run(name, func(t *testing.T) {
			b := ev.enum(t)
			for i, c := range cs {
				if !mine(i) {
					continue
				}
				ev.Eval(name+"\x00"+c.Text, true)
				ev.Sample(name, c.Text)
				if !b.Check("c03.spelling", c, checkSpelling(c)) {
					return
				}
			}
			ev.Exhaustive(name, int64(len(cs)))
			ev.Label(name)
		})
	}
	enumerate("identifier_letters", letterCases())
	enumerate("escapes", escapeCases())
	enumerate("numbers", numberCases())
	enumerate("opchains", opChainCases())
	enumerate("keywords", keywordCases())

	cfg := GenCfg{MaxNodes: 14, HardErrPct: 5,
		Keys:     []string{"a", "b", "key", "value", "é", "a b", "", "last", "to", "type", "x\"y", "λx", "_1", "\\", "A"},
		VarNames: []string{"x", "y", "v_1", "a b", "é", "1"},
		Strs:     []string{"a", "abc", "", "a\"b", "a\\b", "\n", "\t\u0001", "é", "😀", " ", "2015-08-01"},
	}
	ev.rapidProp(t, "spellings", func(rt *rapid.T) {
		cfg := cfg
		if rapid.IntRange(0, 2).Draw(rt, "unikeys") == 0 {
			// identifiers made of letters from whole Unicode blocks
			word := func(l string) string {
				n := rapid.IntRange(1, 3).Draw(rt, l+"n")
				var b strings.Builder
				for i := 0; i < n; i++ {
					b.WriteRune(safeLetters[uniform(rt, len(safeLetters), fmt.Sprintf("%s%d", l, i))])
				}
				return b.String()
			}
			cfg.Keys = append(append([]string{}, cfg.Keys...), word("k1"), word("k2"), "a"+word("k3"))
			cfg.VarNames = append(append([]string{}, cfg.VarNames...), word("v1"))
		}
		p := GenPath(rt, cfg)
		text, alts := SpellN(rt, p)
		c := SpellCase{Path: p, Text: text}
		ev.Eval(text, alts >= 1 && p.Root.Count() >= 2)
		if alts >= 1 {
			ev.Label("noncanonical")
		} else {
			ev.Label("canonical")
		}
		ev.Sample(fmt.Sprintf("random_alts_%d", min(alts/5, 4)*5), text)
		ev.Check(rt, "c03.spelling", c, checkSpelling(c))
	})
}
