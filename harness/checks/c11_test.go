package checks

// C11 — boolean connectives follow three-valued (Kleene) logic.

import (
	"context"
	"encoding/json"
	"fmt"
	"strings"
	"testing"

	"pgregory.net/rapid"
)

// Outcomes: T true, F false, U unknown, H non-suppressible error.
func kAnd(a, b string) string {
	switch {
	case a == "F" || b == "F":
		return "F"
	case a == "T" && b == "T":
		return "T"
	}
	return "U"
}

func kOr(a, b string) string {
	switch {
	case a == "T" || b == "T":
		return "T"
	case a == "F" && b == "F":
		return "F"
	}
	return "U"
}

func kNot(a string) string {
	switch a {
	case "T":
		return "F"
	case "F":
		return "T"
	}
	return "U"
}

func kUnknown(a string) string {
	if a == "U" {
		return "T"
	}
	return "F"
}

// accepted: operands are evaluated left to right (README "Operation"); an
// operand that is evaluated and raises a non-suppressible error (H) makes the
// connective raise it (C08: such errors are returned unchanged). The right
// operand is not evaluated when the left one decides the result, so F && H = F
// and T || H = T are the only ways an H operand can go unreported; an
// implementation that evaluates it anyway may report H. "is unknown" of a
// failing operand may be true (the pinned suite requires it for a missing
// variable) or H.
func accepted(op string, a, b string) []string {
	switch op {
	case "&&":
		switch {
		case a == "H":
			return []string{"H"}
		case a == "F" && b == "H":
			return []string{"F", "H"}
		case b == "H":
			return []string{"H"}
		}
		return []string{kAnd(a, b)}
	case "||":
		switch {
		case a == "H":
			return []string{"H"}
		case a == "T" && b == "H":
			return []string{"T", "H"}
		case b == "H":
			return []string{"H"}
		}
		return []string{kOr(a, b)}
	case "!":
		if a == "H" {
			return []string{"H"}
		}
		return []string{kNot(a)}
	default: // isunknown
		if a == "H" {
			// open finding D37: the non-suppressible error is swallowed and reads as unknown
			ev := c11Ev
			if ev == nil {
				ev = &Ev{Prop: "C11"}
			}
			if ev.quirk("is_unknown_swallows_hard_error") {
				ev.KFCase("D37")
				return []string{"T", "H"}
			}
			return []string{"H"}
		}
		return []string{kUnknown(a)}
	}
}

// KleeneCase: two conditions over @ (bound to the wrapper object = $).
type KleeneCase struct {
	Strict bool   `json:"strict,omitempty"`
	P      *Node  `json:"p"`
	Q      *Node  `json:"q"`
	Doc    string `json:"doc"`
	Opts   Opts   `json:"opts"`
}

// atToRoot replaces @ at filter depth 0 by $.
func atToRoot(n *Node, depth int) *Node {
	if n == nil {
		return nil
	}
	c := *n
	if n.K == KCur && depth == 0 {
		c.K = KRoot
	}
	d := depth
	if n.K == KFilter {
		d++
	}
	c.A = atToRoot(n.A, d)
	c.B = atToRoot(n.B, d)
	if n.Subs != nil {
		c.Subs = make([]Sub, len(n.Subs))
		for i, s := range n.Subs {
			c.Subs[i] = Sub{From: atToRoot(s.From, depth), To: atToRoot(s.To, depth)}
		}
	}
	c.Next = atToRoot(n.Next, depth)
	return &c
}

type kleeneEval struct {
	c    KleeneCase
	doc  string
	open bool
	d9   bool
	err  *Violation
}

// top evaluates a predicate as a predicate check expression.
func (k *kleeneEval) top(pred *Node) string {
	p := &Path{Strict: k.c.Strict, Root: atToRoot(pred, 0)}
	pr, err := prepare(ExecCase{Path: p.Canon(), Doc: k.doc, Opts: k.c.Opts})
	if err != nil {
		k.err = violf("harness: cannot prepare %s: %v", p.Canon(), err)
		return "?"
	}
	if pr.orderOpen() {
		k.open = true
	}
	q := RunQuery(pr.ctx, pr.p, pr.doc, pr.opts(false)...)
	m := RunMatch(pr.ctx, pr.p, pr.doc, pr.opts(false)...)
	if q.Panic != "" || m.Panic != "" {
		return "?"
	}
	if isD9(q.Err) || isD9(m.Err) {
		k.d9 = true
		return "?"
	}
	var out string
	switch {
	case q.Class == EHard:
		out = "H"
	case q.Class != EOK:
		k.err = violf("predicate check %q on %s returned a %s error instead of true/false/null: %v", p.Canon(), k.doc, q.Class, q.Err)
		return "?"
	case len(q.Items) != 1:
		k.err = violf("predicate check %q on %s returned %d items", p.Canon(), k.doc, len(q.Items))
		return "?"
	case q.Items[0] == nil:
		out = "U"
	case q.Items[0] == true:
		out = "T"
	case q.Items[0] == false:
		out = "F"
	default:
		k.err = violf("predicate check %q on %s returned the non-boolean %v", p.Canon(), k.doc, q.Items[0])
		return "?"
	}
	if !k.open {
		// Match mirrors Query
		ok := false
		switch out {
		case "T":
			ok = m.Class == EOK && m.Bool
		case "F":
			ok = m.Class == EOK && !m.Bool
		case "U":
			ok = m.Class == ENull && !m.Bool
		case "H":
			ok = m.Class == EHard
		}
		if !ok {
			k.err = violf("predicate check %q on %s: Query says %s but Match = %v, %v", p.Canon(), k.doc, out, m.Bool, m.Err)
		}
	}
	return out
}

// existsOracle derives the outcome of exists(e) from Query(e) alone ("" = not decidable here).
func (k *kleeneEval) existsOracle(e *Node) string {
	p := &Path{Strict: k.c.Strict, Root: atToRoot(e, 0)}
	if !p.Strict && e.K == KUn && e.S != "!" && e.Next == nil {
		return "" // open finding D17b: lax existence mode of a chain-less unary sign
	}
	pr, err := prepare(ExecCase{Path: p.Canon(), Doc: k.doc, Opts: k.c.Opts})
	if err != nil || pr.orderOpen() {
		return ""
	}
	vb := RunQuery(pr.ctx, pr.p, pr.doc, pr.opts(false)...)
	si := RunQuery(pr.ctx, pr.p, pr.doc, pr.opts(true)...)
	if vb.Panic != "" || si.Panic != "" || isD9(vb.Err) || isD9(si.Err) {
		return ""
	}
	if p.Strict {
		switch vb.Class {
		case EOK:
			return boolOutcome(len(vb.Items) > 0)
		case ESupp:
			return "U"
		case EHard:
			return "H"
		}
		return ""
	}
	// lax: true as soon as one item is found, before any later failure
	switch {
	case si.Class == EOK && len(si.Items) > 0:
		return "T"
	case vb.Class == EOK:
		return "F"
	case vb.Class == ESupp:
		return "U"
	case vb.Class == EHard:
		// a non-suppressible error hides the items found before it even from the silent
		// run; lax existence mode answers true as soon as one item is found, so the
		// reference model decides whether an item precedes the error
		var vars map[string]any
		if pr.vars != nil {
			vars = map[string]any(pr.vars)
		}
		mr := RunModel(pr.tree, pr.doc, k.c.Opts, vars, true)
		if (mr.Err != nil && mr.Err.dontCare) || mr.OrderOpen || mr.SawD9 || mr.UsedD19 {
			return ""
		}
		if len(mr.Items) > 0 {
			return "T"
		}
		return "H"
	}
	return ""
}

// inFilter evaluates the same predicate as a filter condition on $.
func (k *kleeneEval) inFilter(pred *Node) string {
	run := func(cond *Node) (int, string) {
		p := &Path{Strict: k.c.Strict, Root: &Node{K: KRoot, Next: &Node{K: KFilter, A: cond}}}
		pr, err := prepare(ExecCase{Path: p.Canon(), Doc: k.doc, Opts: k.c.Opts})
		if err != nil {
			return 0, "?"
		}
		q := RunQuery(pr.ctx, pr.p, pr.doc, pr.opts(false)...)
		if q.Panic != "" || isD9(q.Err) {
			return 0, "?"
		}
		return len(q.Items), q.Class
	}
	n, cls := run(pred.Clone())
	switch {
	case cls == EHard:
		return "H"
	case cls != EOK:
		return "?"
	case n == 1:
		return "T"
	}
	n2, cls2 := run(&Node{K: KIsUnknown, A: pred.Clone()})
	if cls2 != EOK {
		return "?"
	}
	if n2 == 1 {
		return "U"
	}
	return "F"
}

type kleeneFacts struct {
	op, oq string
	open   bool
	d9     bool
}

var checkKleene = register("c11.kleene", func(c KleeneCase) *Violation {
	v, _ := checkKleeneFacts(c)
	return v
})

func checkKleeneFacts(c KleeneCase) (*Violation, kleeneFacts) {
	k := &kleeneEval{c: c, doc: `{"a":` + c.Doc + `}`}
	var f kleeneFacts
	p, q := c.P, c.Q
	op, oq := k.top(p), k.top(q)
	f.op, f.oq, f.open, f.d9 = op, oq, k.open, k.d9
	if k.err != nil {
		return k.err, f
	}
	if op == "?" || oq == "?" || k.open {
		f.open = k.open
		return nil, f
	}
	// exists(e) is true or false by the emptiness of e and unknown only when e fails
	for _, x := range []struct {
		n *Node
		o string
	}{{p, op}, {q, oq}} {
		if x.n.K != KExists {
			continue
		}
		if want := k.existsOracle(x.n.A); want != "" && want != x.o {
			pp := &Path{Strict: c.Strict, Root: atToRoot(x.n, 0)}
			return violf("%q on %s evaluates to %s, but its operand's own evaluation makes it %s", pp.Canon(), k.doc, x.o, want), f
		}
	}
	and := func(a, b *Node) *Node { return &Node{K: KBin, S: "&&", A: a.Clone(), B: b.Clone()} }
	or := func(a, b *Node) *Node { return &Node{K: KBin, S: "||", A: a.Clone(), B: b.Clone()} }
	not := func(a *Node) *Node { return &Node{K: KUn, S: "!", A: a.Clone()} }
	unk := func(a *Node) *Node { return &Node{K: KIsUnknown, A: a.Clone()} }
	type comp struct {
		name string
		n    *Node
		want []string
	}
	notP, notQ := accepted("!", op, ""), accepted("!", oq, "")
	var deMorgan []string
	for _, a := range notP {
		for _, b := range notQ {
			deMorgan = append(deMorgan, accepted("||", a, b)...)
		}
	}
	var notAnd []string
	for _, a := range accepted("&&", op, oq) {
		notAnd = append(notAnd, accepted("!", a, "")...)
	}
	var notNot []string
	for _, a := range notP {
		notNot = append(notNot, accepted("!", a, "")...)
	}
	var unkUnk []string
	for _, a := range accepted("isunknown", op, "") {
		unkUnk = append(unkUnk, accepted("isunknown", a, "")...)
	}
	comps := []comp{
		{"p && q", and(p, q), accepted("&&", op, oq)},
		{"q && p", and(q, p), accepted("&&", oq, op)},
		{"p || q", or(p, q), accepted("||", op, oq)},
		{"q || p", or(q, p), accepted("||", oq, op)},
		{"!p", not(p), notP},
		{"!!p", not(not(p)), notNot},
		{"!(p && q)", not(and(p, q)), notAnd},
		{"!p || !q", or(not(p), not(q)), deMorgan},
		{"(p) is unknown", unk(p), accepted("isunknown", op, "")},
		{"((p) is unknown) is unknown", unk(unk(p)), unkUnk},
		{"(p && q) is unknown", unk(and(p, q)), nil},
	}
	for _, a := range accepted("&&", op, oq) {
		comps[len(comps)-1].want = append(comps[len(comps)-1].want, accepted("isunknown", a, "")...)
	}
	for _, cp := range comps {
		got := k.top(cp.n)
		if k.err != nil {
			return k.err, f
		}
		if got == "?" {
			continue
		}
		if !contains(cp.want, got) {
			pp := &Path{Strict: c.Strict, Root: atToRoot(cp.n, 0)}
			return violf("%s: p=%s q=%s but %s evaluates to %s (accepted %v); path %q on %s", cp.name, op, oq, cp.name, got, cp.want, pp.Canon(), k.doc), f
		}
		if strings.HasSuffix(cp.name, "is unknown") && got == "U" {
			return violf("%s is itself unknown (p=%s q=%s)", cp.name, op, oq), f
		}
		// the same predicate as a filter condition keeps the item exactly when it is true
		if fo := k.inFilter(cp.n); fo != "?" && fo != got && !(got == "H" || fo == "H") {
			pp := &Path{Strict: c.Strict, Root: atToRoot(cp.n, 0)}
			return violf("%s evaluates to %s as a predicate check but to %s as a filter condition; %q on %s", cp.name, got, fo, pp.Canon(), k.doc), f
		}
	}
	return nil, f
}

// truthTableCases: complete tables over operands with known outcomes.
func truthTableCases() []KleeneCase {
	type operand struct{ n *Node }
	lit := func(v int64) *Node { return &Node{K: KInt, I: v} }
	eq := func(a, b *Node) *Node { return &Node{K: KBin, S: "==", A: a, B: b} }
	gt := func(a, b *Node) *Node { return &Node{K: KBin, S: ">", A: a, B: b} }
	nested := func(cond *Node) *Node {
		return &Node{K: KExists, A: &Node{K: KCur, Next: &Node{K: KKey, S: "a", Next: &Node{K: KFilter, A: cond}}}}
	}
	ops := []*Node{
		eq(lit(1), lit(1)),                 // T
		eq(lit(1), lit(2)),                 // F
		eq(lit(1), &Node{K: KStr, S: "a"}), // U (different types)
		gt(&Node{K: KBin, S: "/", A: lit(1), B: lit(0)}, lit(0)),                                                 // U (suppressible error)
		eq(&Node{K: KCur, Next: &Node{K: KKey, S: "nokey", Next: &Node{K: KKey, S: "x"}}}, lit(1)),               // U in strict (structural), F in lax
		eq(&Node{K: KVar, S: "missing"}, lit(1)),                                                                 // H
		&Node{K: KExists, A: &Node{K: KCur}},                                                                     // T
		&Node{K: KExists, A: &Node{K: KCur, Next: &Node{K: KKey, S: "nokey"}}},                                   // F lax / U strict
		&Node{K: KExists, A: &Node{K: KVar, S: "missing"}},                                                       // H
		&Node{K: KExists, A: &Node{K: KCur, Next: &Node{K: KKey, S: "a", Next: &Node{K: KMethod, S: "double"}}}}, // depends on doc
		&Node{K: KBin, S: "starts with", A: &Node{K: KCur, Next: &Node{K: KKey, S: "a"}}, B: &Node{K: KStr, S: "a"}},
		&Node{K: KRegex, A: &Node{K: KCur, Next: &Node{K: KKey, S: "a"}}, S: "^a", Flags: ""},
		&Node{K: KIsUnknown, A: eq(lit(1), &Node{K: KStr, S: "a"})},  // T
		&Node{K: KUn, S: "!", A: eq(lit(1), &Node{K: KStr, S: "a"})}, // U
		// nested filters that re-bind @ and end in each outcome; the sibling operand then uses @ again
		nested(eq(&Node{K: KCur}, &Node{K: KVar, S: "missing"})),                                       // H inside a nested filter
		&Node{K: KIsUnknown, A: nested(eq(&Node{K: KCur}, &Node{K: KVar, S: "missing"}))},              // swallowed H
		nested(gt(&Node{K: KCur}, &Node{K: KStr, S: "x"})),                                             // U/F inside a nested filter
		nested(eq(&Node{K: KCur}, &Node{K: KCur})),                                                     // T when @.a exists
		eq(&Node{K: KCur, Next: &Node{K: KKey, S: "a"}}, &Node{K: KCur, Next: &Node{K: KKey, S: "a"}}), // uses @ twice
		// exists over multi-item producers followed by a rejecting filter, and exists nested in exists
		&Node{K: KExists, A: &Node{K: KCur, Next: &Node{K: KKey, S: "a", Next: &Node{K: KIdx, Subs: []Sub{{From: lit(0)}, {From: lit(1)}}, Next: &Node{K: KFilter, A: eq(&Node{K: KCur}, lit(1))}}}}},
		&Node{K: KExists, A: &Node{K: KCur, Next: &Node{K: KKey, S: "a", Next: &Node{K: KAnyArr, Next: &Node{K: KFilter, A: &Node{K: KExists, A: &Node{K: KCur, Next: &Node{K: KFilter, A: eq(&Node{K: KCur}, lit(1))}}}}}}}},
		&Node{K: KExists, A: &Node{K: KCur, Next: &Node{K: KAny, First: 0, Last: -1, Next: &Node{K: KKey, S: "x"}}}},
		&Node{K: KExists, A: &Node{K: KCur, Next: &Node{K: KKey, S: "a", Next: &Node{K: KMethod, S: "keyvalue", Next: &Node{K: KFilter, A: eq(&Node{K: KCur, Next: &Node{K: KKey, S: "key"}}, &Node{K: KStr, S: "x"})}}}}},
	}
	docs := []string{`1`, `"abc"`, `[1,"a"]`, `null`, `{"x":1}`, `[{"p":{"x":1}},{"q":2}]`, `[2,1]`}
	var out []KleeneCase
	for _, a := range ops {
		for _, b := range ops {
			for _, d := range docs {
				for _, strict := range []bool{false, true} {
					out = append(out, KleeneCase{Strict: strict, P: a.Clone(), Q: b.Clone(), Doc: d, Opts: Opts{TZ: true, HasVars: true, Vars: map[string]string{"x": "1"}}})
				}
			}
		}
	}
	return out
}

var c11Ev *Ev

func init() {
	quirkProbes["is_unknown_swallows_hard_error"] = func() bool {
		p, err, _ := ParseSafe(`($nosuchvariable == 1) is unknown`)
		if err != nil {
			return false
		}
		o := RunQuery(context.Background(), p, nil)
		return o.Class == EOK // the unknown-variable error was swallowed
	}
}

func TestC11(t *testing.T) {
	ev := newEv(t, "C11")
	c11Ev = ev
	ev.replayTier(t)
	_ = ev.quirk("is_unknown_swallows_hard_error")
	record := func(class string, c KleeneCase, f kleeneFacts) {
		key, _ := json.Marshal(c)
		nontriv := f.op != "" && f.oq != "" && !f.open && (f.op == "U" || f.op == "H" || f.oq == "U" || f.oq == "H" || f.op != f.oq)
		ev.Eval(string(key), nontriv)
		if f.open {
			ev.Label("skipped_member_order_open")
		} else {
			ev.Label("outcomes:" + f.op + f.oq)
		}
		if f.d9 {
			ev.KFCase("D9")
		}
		pp := &Path{Strict: c.Strict, Root: atToRoot(c.P, 0)}
		qq := &Path{Strict: c.Strict, Root: atToRoot(c.Q, 0)}
		ev.Sample(class+":"+f.op+f.oq, map[string]string{"p": pp.Canon(), "q": qq.Canon(), "doc": c.Doc})
	}
	t.Run("truth_tables", func(t *testing.T) {
		b := ev.enum(t)
		cs := truthTableCases()
		for i, c := range cs {
			if !mine(i) {
				continue
			}
			v, f := checkKleeneFacts(c)
			record("table", c, f)
			if !b.Check("c11.kleene", c, v) {
				return
			}
		}
		ev.Exhaustive("operand_outcome_pairs_by_doc_and_mode", int64(len(cs)))
	})
	ev.rapidProp(t, "random", func(rt *rapid.T) {
		closed := rapid.IntRange(0, 9).Draw(rt, "closed") < 7
		cfg := GenCfg{MaxNodes: 8, HardErrPct: 8, NoAny: closed, NoWildKey: closed}.withDefaults()
		g := &pgen{t: rt, c: cfg}
		g.budget = 1 + g.n(sz(6), "psize")
		p := Normalize(g.pred(gctx{inFilter: true}))
		g.budget = 1 + g.n(sz(6), "qsize")
		q := Normalize(g.pred(gctx{inFilter: true}))
		doc := GenDoc(rt, DocCfg{}, "doc")
		usesVars := p.Has(func(n *Node) bool { return n.K == KVar }) || q.Has(func(n *Node) bool { return n.K == KVar })
		c := KleeneCase{Strict: g.chance(45, "strict"), P: p, Q: q, Doc: doc.Text(), Opts: genOpts(rt, DocCfg{}, defVars, usesVars)}
		v, f := checkKleeneFacts(c)
		record("random", c, f)
		ev.Check(rt, "c11.kleene", c, v)
	})
	_ = fmt.Sprint
}
