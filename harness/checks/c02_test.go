package checks

// C02 — canonical text round-trips: re-parsing String() yields the same path.

import (
	"context"
	"fmt"
	"math"
	"strings"
	"testing"

	"github.com/theory/sqljson/path"
	"pgregory.net/rapid"
)

// RTCase: a path text (a spelling the parser accepts) and documents on which
// the original and the re-parsed path must behave identically.
type RTCase struct {
	Text string   `json:"text"`
	Docs []string `json:"docs,omitempty"`
}

func init() {
	quirkProbes["numeric_prints_as_integer"] = func() bool {
		p, err := path.Parse("4.0")
		if err != nil {
			return false
		}
		p2, err := path.Parse(p.String())
		if err != nil {
			return true
		}
		return Diff(PathFromAST(p.AST).Root, PathFromAST(p2.AST).Root) != ""
	}
}

// integralNumeric: the input class of open finding D8.
func integralNumeric(n *Node) bool {
	return n.K == KNum && n.F == math.Trunc(n.F) && math.Abs(n.F) < 1e21
}

// d8Fold maps integral-valued numeric literals that fit int64 to the integer
// literal they are printed as (the narrowly scoped deviation of finding D8).
func d8Fold(n *Node) *Node {
	c := n.Clone()
	c.Walk(func(x *Node) {
		if integralNumeric(x) && math.Abs(x.F) < 9223372036854775808.0 { // the printed digits fit an int64 (below 2^63; -2^63 itself re-parses as a double)
			// the integer literal of the same value: finding D8 is the change of the node's kind, not
			// a change of the number (D56: beyond 2^53 the digits printed were the shortest ones that
			// read back as the same double, 2^62 -> 4611686018427388000, and the integer literal
			// they spell is another number)
			x.K, x.I, x.F = KInt, int64(x.F), 0
		}
	})
	return c
}

type rtFacts struct {
	d8 bool
}

var rtEv *Ev // set by TestC02 so that the quirk can print its KNOWN-FINDING line

var checkRoundTrip = register("c02.roundtrip", func(c RTCase) *Violation {
	v, _ := checkRoundTripFacts(c)
	return v
})

func checkRoundTripFacts(c RTCase) (v *Violation, f rtFacts) {
	defer func() {
		if r := recover(); r != nil {
			v = violf("panic during round trip of %q: %v", c.Text, r)
		}
	}()
	p, err := path.Parse(c.Text)
	if err != nil {
		return nil, f // not in the property's domain (C03/C04 deal with acceptance)
	}
	t1 := PathFromAST(p.AST)
	s := p.String()
	p2, err := path.Parse(s)
	if err != nil {
		return violf("Parse(%q).String() = %q does not re-parse: %v", c.Text, s, err), f
	}
	if p2.IsLax() != p.IsLax() {
		return violf("%q -> %q: mode changed", c.Text, s), f
	}
	if p2.IsPredicate() != p.IsPredicate() {
		return violf("%q -> %q: IsPredicate %v -> %v", c.Text, s, p.IsPredicate(), p2.IsPredicate()), f
	}
	t2 := PathFromAST(p2.AST)
	want := t1.Root
	if t1.Root.Has(integralNumeric) {
		ev := rtEv
		if ev == nil {
			ev = &Ev{Prop: "C02"}
		}
		if ev.quirk("numeric_prints_as_integer") {
			f.d8 = true
			want = d8Fold(t1.Root)
		}
	}
	if d := Diff(want, t2.Root); d != "" {
		return violf("%q prints as %q which parses to a different tree: %s", c.Text, s, d), f
	}
	negZero := f.d8 && t1.Root.Has(func(n *Node) bool { return n.K == KNum && n.F == 0 && math.Signbit(n.F) })
	if s2 := p2.String(); s2 != s && !negZero { // -0.0 prints as -0, the integer 0: same class as D8
		return violf("String is not a fixed point: %q -> %q -> %q", c.Text, s, s2), f
	}
	// the marshalling interfaces delegate to String/Parse: same chain through each
	type rt struct {
		name string
		f    func() (*path.Path, error)
	}
	for _, r := range []rt{
		{"MarshalText/UnmarshalText", func() (*path.Path, error) {
			b, err := p.MarshalText()
			if err != nil {
				return nil, err
			}
			var q path.Path
			return &q, q.UnmarshalText(b)
		}},
		{"MarshalBinary/UnmarshalBinary", func() (*path.Path, error) {
			b, err := p.MarshalBinary()
			if err != nil {
				return nil, err
			}
			var q path.Path
			return &q, q.UnmarshalBinary(b)
		}},
		{"Value/Scan(string)", func() (*path.Path, error) {
			val, err := p.Value()
			if err != nil {
				return nil, err
			}
			var q path.Path
			return &q, q.Scan(val)
		}},
		{"Value/Scan([]byte)", func() (*path.Path, error) {
			val, err := p.Value()
			if err != nil {
				return nil, err
			}
			str, ok := val.(string)
			if !ok {
				return nil, fmt.Errorf("Value() returned %T", val)
			}
			var q path.Path
			return &q, q.Scan([]byte(str))
		}},
		// the same into a Path that already held (and printed) another path: reading back replaces it entirely
		{"UnmarshalText into a used Path", func() (*path.Path, error) {
			b, err := p.MarshalText()
			if err != nil {
				return nil, err
			}
			q := path.MustParse(`strict $."zz" ? (@ like_regex "^old$")`)
			_, _, _ = q.String(), q.IsPredicate(), q.PgIndexOperator()
			_, _ = q.MarshalText()
			return q, q.UnmarshalText(b)
		}},
		{"Scan into a used Path", func() (*path.Path, error) {
			val, err := p.Value()
			if err != nil {
				return nil, err
			}
			q := path.MustParse(`$.zz == 1`)
			_ = q.String()
			_, _ = q.Value()
			return q, q.Scan(val)
		}},
	} {
		q, err := r.f()
		if err != nil {
			return violf("%s of %q failed: %v", r.name, c.Text, err), f
		}
		if q.AST == nil {
			return violf("%s of %q left a nil AST", r.name, c.Text), f
		}
		if d := Diff(want, PathFromAST(q.AST).Root); d != "" || q.IsLax() != p.IsLax() || q.IsPredicate() != p.IsPredicate() {
			return violf("%s of %q yields a different path (%q): %s", r.name, c.Text, q.String(), d), f
		}
		if q.String() != p2.String() || q.PgIndexOperator() != p.PgIndexOperator() {
			return violf("%s of %q: the path read back prints as %q (operator %s), want %q (%s)", r.name, c.Text, q.String(), q.PgIndexOperator(), p2.String(), p.PgIndexOperator()), f
		}
	}
	// same results on every document (skipped only inside finding D8's class,
	// where integer and double arithmetic legitimately differ)
	if f.d8 {
		return nil, f
	}
	for _, dt := range c.Docs {
		for _, useNumber := range []bool{false, true} {
			doc := MustDecode(dt, useNumber)
			o1 := RunQuery(context.Background(), p, doc)
			o2 := RunQuery(context.Background(), p2, doc)
			if o1.Panic != "" || o2.Panic != "" {
				continue // C05's business
			}
			open := orderOpen(t1.Root, doc)
			if open && hasPredicate(t1.Root) {
				continue // lax short-circuits make the value of a predicate depend on the member order of each run
			}
			if o1.Class != o2.Class {
				if open {
					continue // which error is met first depends on the member order
				}
				return violf("%q and its reprint %q differ on %s: %s vs %s", c.Text, s, dt, o1, o2), f
			}
			r1, r2 := RenderSeq(o1.Items, true), RenderSeq(o2.Items, true)
			if !sameMultiset(r1, r2) || (!open && !sameSeq(r1, r2)) {
				return violf("%q and its reprint %q return different items on %s: %v vs %v", c.Text, s, dt, r1, r2), f
			}
		}
	}
	return nil, f
}

// stringCorpus: one representative per code-point class (DESIGN 2.4).
var stringCorpus = []string{
	"a", "", " ", "a b", "\"", "\\", "/", "'", "\u0001", "\u0007", "\u0008", "\u000b", "\u000c", "\n", "\r", "\t", "\u001b", "\u007f",
	"\u0080", "\u009f", "\u00a0", "\u00ad", "é", "\u2028", "\u2029", "\ufeff", "\ufffd", "λ", "漢", "😀", "𝄞", "\U000e0001", "\U0010ffff", "é",
	"a\"b\\c", "\u0007x\U000e0001", "tab\there", "\\a", "dir\\apps", "C:\\Users\\admin", "\\U0001F600", "\\u0041", "\\\\a", "\\", "\\n", "\\x41", "a\\", "\\\"", "$x", "a.b", "a[0]", "*", "**", "last", "true",
}

func operatorTableCases() []RTCase {
	// every operator node as left and right operand of every operator, with
	// and without a trailing accessor chain
	leaf := func(i int) *Node { return &Node{K: KRoot, Next: &Node{K: KKey, S: string(rune('a' + i))}} }
	type mk func(a, b *Node) *Node
	exprOps := map[string]mk{}
	for _, op := range arithOps {
		op := op
		exprOps["bin"+op] = func(a, b *Node) *Node { return &Node{K: KBin, S: op, A: a, B: b} }
	}
	exprOps["neg"] = func(a, _ *Node) *Node { return &Node{K: KUn, S: "-", A: a} }
	exprOps["pos"] = func(a, _ *Node) *Node { return &Node{K: KUn, S: "+", A: a} }
	predOps := map[string]mk{}
	for _, op := range []string{"==", "!=", "<", ">", "<=", ">="} {
		op := op
		predOps["cmp"+op] = func(a, b *Node) *Node { return &Node{K: KBin, S: op, A: a, B: b} }
	}
	predOps["starts"] = func(a, _ *Node) *Node {
		return &Node{K: KBin, S: "starts with", A: a, B: &Node{K: KStr, S: "x"}}
	}
	predOps["regex"] = func(a, _ *Node) *Node { return &Node{K: KRegex, A: a, S: "^a", Flags: "i"} }
	predOps["exists"] = func(a, _ *Node) *Node { return &Node{K: KExists, A: a} }
	connOps := map[string]mk{
		"and":     func(a, b *Node) *Node { return &Node{K: KBin, S: "&&", A: a, B: b} },
		"or":      func(a, b *Node) *Node { return &Node{K: KBin, S: "||", A: a, B: b} },
		"not":     func(a, _ *Node) *Node { return &Node{K: KUn, S: "!", A: a} },
		"unknown": func(a, _ *Node) *Node { return &Node{K: KIsUnknown, A: a} },
	}
	basePred := func(i int) *Node { return &Node{K: KBin, S: "==", A: leaf(i), B: &Node{K: KInt, I: int64(i)}} }
	chainOf := func() *Node { return &Node{K: KMethod, S: "type"} }
	var trees []*Node
	// inner expr operator (with/without chain) as operand of outer expr/pred operator
	for _, in := range sortedKeys(exprOps) {
		for _, withChain := range []bool{false, true} {
			inner := func() *Node {
				n := exprOps[in](leaf(0), leaf(1))
				if withChain {
					n.Next = chainOf()
				}
				return n
			}
			for _, out := range sortedKeys(exprOps) {
				trees = append(trees, exprOps[out](inner(), leaf(2)), exprOps[out](leaf(2), inner()))
				o := exprOps[out](inner(), leaf(2))
				o.Next = chainOf()
				trees = append(trees, o)
			}
			for _, out := range sortedKeys(predOps) {
				trees = append(trees, predOps[out](inner(), leaf(2)), predOps[out](leaf(2), inner()))
			}
			trees = append(trees, &Node{K: KRoot, Next: &Node{K: KIdx, Subs: []Sub{{From: inner(), To: inner()}}}})
			trees = append(trees, inner())
		}
	}
	// inner predicate (always with chain when used as expr operand) inside expr/pred operators
	allPred := map[string]mk{}
	for k, v := range predOps {
		allPred[k] = v
	}
	for k, v := range connOps {
		allPred[k] = v
	}
	for _, in := range sortedKeys(allPred) {
		inner := func(chain bool) *Node {
			var n *Node
			if _, isConn := connOps[in]; isConn {
				n = allPred[in](basePred(0), basePred(1))
			} else {
				n = allPred[in](leaf(0), leaf(1))
			}
			if chain {
				n.Next = chainOf()
			}
			return n
		}
		for _, out := range sortedKeys(exprOps) {
			trees = append(trees, exprOps[out](inner(true), leaf(2)), exprOps[out](leaf(2), inner(true)))
		}
		for _, out := range sortedKeys(predOps) {
			trees = append(trees, predOps[out](inner(true), leaf(2)), predOps[out](leaf(2), inner(true)))
		}
		for _, out := range sortedKeys(connOps) {
			trees = append(trees, connOps[out](inner(false), basePred(2)), connOps[out](basePred(2), inner(false)))
			w := connOps[out](inner(false), basePred(2))
			w.Next = chainOf()
			trees = append(trees, w)
		}
		trees = append(trees, inner(true), inner(false), &Node{K: KRoot, Next: &Node{K: KFilter, A: inner(false)}})
		trees = append(trees, &Node{K: KRoot, Next: &Node{K: KIdx, Subs: []Sub{{From: inner(true)}}}})
	}
	var out []RTCase
	docs := []string{`{"a":1,"b":2,"c":"abc"}`, `{"a":"ab","b":"a","c":[1,2]}`, `[{"a":-1.5,"b":0,"c":2}]`}
	for _, tr := range trees {
		for _, strict := range []bool{false, true} {
			p := &Path{Strict: strict, Root: Normalize(tr)}
			out = append(out, RTCase{Text: p.Canon(), Docs: docs})
		}
	}
	return out
}

// stringPairs: every ordered pair of the single-class representatives, so that a printer with a fast
// and a slow path (chosen by one class) is exercised with every other class in the same string.
func stringPairs() []string {
	single := []string{"a", "\"", "\\", "/", "'", "\u0001", "\u0007", "\u0008", "\n", "\t", "\u007f", "\u0080", "\u00a0", "é", "\u2028", "\ufeff", "😀", "\U000e0001", "\U0010ffff", "\\a", "\\U", "\\u", "$", " "}
	var out []string
	for _, a := range single {
		for _, b := range single {
			if a != b {
				out = append(out, a+b, a+"x"+b)
			}
		}
	}
	return out
}

// NullScanCase: reading a NULL (nil, "", empty bytes) into a Path that already holds a path leaves the
// null Path, not the previous row's path ("a path written to a database and read back keeps its meaning").
type NullScanCase struct {
	Text string `json:"text"`
	Src  string `json:"src"` // nil | empty_string | empty_bytes | nil_bytes
}

var checkNullScan = register("c02.nullscan", func(c NullScanCase) *Violation {
	p, err := path.Parse(c.Text)
	if err != nil {
		return nil
	}
	_ = p.String()
	var src any
	switch c.Src {
	case "empty_string":
		src = ""
	case "empty_bytes":
		src = []byte{}
	case "nil_bytes":
		src = []byte(nil)
	}
	if err := p.Scan(src); err != nil {
		return violf("Scan(%s) into a Path holding %q failed: %v", c.Src, c.Text, err)
	}
	if p.AST != nil {
		return violf("Scan(%s) into a Path holding %q left the previous path in place (%q); a NULL read back must give the null Path", c.Src, c.Text, p.String())
	}
	return nil
})

func literalTableCases() []RTCase {
	var out []RTCase
	for _, s := range stringPairs() {
		q := QuoteJP(s)
		out = append(out, RTCase{Text: q, Docs: []string{`null`}}, RTCase{Text: "$." + q + " == $" + q, Docs: []string{`{"a":1}`}})
		if _, err := path.Parse("$ like_regex " + q + ` flag "q"`); err == nil {
			out = append(out, RTCase{Text: "$ like_regex " + q + ` flag "q"`, Docs: []string{QuoteJSON(s)}})
		}
	}
	for _, s := range stringCorpus {
		q := QuoteJP(s)
		out = append(out,
			RTCase{Text: q, Docs: []string{`null`}},
			RTCase{Text: "$." + q, Docs: []string{`{"a":1}`}},
			RTCase{Text: "$" + q},
			RTCase{Text: "$ starts with " + q, Docs: []string{`"abc"`}},
			RTCase{Text: "$ == " + q + " && $." + q + " == $" + q},
			RTCase{Text: "$.datetime(" + q + ")"},
			RTCase{Text: "$.a ? (@." + q + " == " + q + ")." + q},
		)
		if _, err := path.Parse("$ like_regex " + q); err == nil {
			out = append(out, RTCase{Text: "$ like_regex " + q, Docs: []string{`"abc"`, QuoteJSON(s)}},
				RTCase{Text: "$ like_regex " + q + ` flag "q"`, Docs: []string{`"abc"`, QuoteJSON(s)}})
		} else {
			out = append(out, RTCase{Text: "$ like_regex " + q + ` flag "q"`, Docs: []string{`"abc"`, QuoteJSON(s)}})
		}
	}
	for _, l := range append(append([]string{}, intForms...), numForms...) {
		out = append(out,
			RTCase{Text: l}, RTCase{Text: "-" + l}, RTCase{Text: "(" + l + ").type()"}, RTCase{Text: "(-" + l + ").abs()"},
			RTCase{Text: l + " / 3", Docs: []string{"null"}}, RTCase{Text: "$ * " + l, Docs: []string{"2", "2.5"}},
			RTCase{Text: "$ - -" + l, Docs: []string{"2"}}, RTCase{Text: "-(" + l + " .abs())"},
			RTCase{Text: "$[" + l + "]", Docs: []string{"[1,2,3]"}},
		)
	}
	// levels, subscripts and arguments at the int32 limit (the largest the syntax admits) keep their value on every word size
	for _, t := range []string{"$.**{2147483647}", "$.**{2147483646 to 2147483647}", "$.**{0 to 2147483647}", "$.**{2147483647 to last}", "$.**{1 to 2147483646}", "$[2147483647]", "$[-2147483648 to 2147483647]", "$.time(2147483647)", "$.decimal(1000, -1000)", "$[4294967295]", "$[9223372036854775807]"} {
		out = append(out, RTCase{Text: t, Docs: []string{`{"a":[1,{"b":2}],"c":"x"}`, `[1,[2,[3]]]`}}, RTCase{Text: "strict " + t, Docs: []string{`{"a":[1,{"b":2}],"c":"x"}`}})
	}
	for _, a := range []int{0, 1, 2, 3} {
		for _, b := range []int{0, 1, 2, 3} {
			out = append(out, RTCase{Text: fmt.Sprintf("$.**{%d to %d}", a, b), Docs: []string{`{"a":[1,{"b":2}]}`}})
		}
		out = append(out,
			RTCase{Text: fmt.Sprintf("$.**{%d}", a), Docs: []string{`{"a":[1,{"b":2}]}`}},
			RTCase{Text: fmt.Sprintf("$.**{%d to last}", a), Docs: []string{`{"a":[1,{"b":2}]}`}},
			RTCase{Text: fmt.Sprintf("$.**{last to %d}", a), Docs: []string{`{"a":[1,{"b":2}]}`}},
		)
	}
	out = append(out, RTCase{Text: "$.**"}, RTCase{Text: "$.**{last}"}, RTCase{Text: "$.**{last to last}"}, RTCase{Text: "$.**{0 to last}.a"})
	flags := []string{"", "i", "s", "m", "q"}
	var subsets []string
	for m := 0; m < 16; m++ {
		f := ""
		for i, c := range "ismq" {
			if m&(1<<i) != 0 {
				f += string(c)
			}
		}
		subsets = append(subsets, f, reverse(f))
	}
	subsets = append(subsets, "ii", "qq", "siq", "mis", "imsq", "qsmi")
	for _, f := range append(flags, subsets...) {
		out = append(out, RTCase{Text: `$ like_regex "a.b" flag "` + f + `"`, Docs: []string{`"a\nb"`, `"A.B"`, `["axb","a.b"]`}})
	}
	return out
}

func reverse(s string) string {
	r := []rune(s)
	for i, j := 0, len(r)-1; i < j; i, j = i+1, j-1 {
		r[i], r[j] = r[j], r[i]
	}
	return string(r)
}

// QuoteJSON quotes s as a JSON string.
func QuoteJSON(s string) string {
	var b strings.Builder
	b.WriteByte('"')
	for _, r := range s {
		switch {
		case r == '"':
			b.WriteString(`\"`)
		case r == '\\':
			b.WriteString(`\\`)
		case r < 0x20:
			fmt.Fprintf(&b, `\u%04x`, r)
		default:
			b.WriteRune(r)
		}
	}
	b.WriteByte('"')
	return b.String()
}

func rtNontrivial(t *Path) bool {
	return t.Root.Has(func(n *Node) bool {
		switch n.K {
		case KBin, KUn, KExists, KIsUnknown, KRegex:
			if n.Next != nil {
				return true
			}
		case KStr, KKey, KVar:
			for _, r := range n.S {
				if r < 0x20 || r > 0x7e || r == '"' || r == '\\' {
					return true
				}
			}
		case KNum:
			return true
		case KInt:
			return n.I > math.MaxInt32 || n.I < 0 || n.Next != nil
		case KAny:
			return !(n.First == 0 && n.Last == -1)
		}
		if n.K == KRegex && n.Flags != "" {
			return true
		}
		return false
	})
}

func TestC02(t *testing.T) {
	ev := newEv(t, "C02")
	rtEv = ev
	ev.replayTier(t)
	t.Run("null_scan_into_a_used_path", func(t *testing.T) {
		b := ev.enum(t)
		n := 0
		for _, text := range []string{`$.a ? (@ > 1)`, `strict $.b`, `$ == 1`, `$x like_regex "a"`} {
			for _, src := range []string{"nil", "empty_string", "empty_bytes", "nil_bytes"} {
				c := NullScanCase{Text: text, Src: src}
				n++
				ev.Eval("nullscan"+text+src, true)
				if !b.Check("c02.nullscan", c, checkNullScan(c)) {
					return
				}
			}
		}
		ev.Exhaustive("null_sources_by_previous_paths", int64(n))
	})
	run := func(name string, cs []RTCase) {
		t.Run(name, func(t *testing.T) {
			b := ev.enum(t)
			for i, c := range cs {
				if !mine(i) {
					continue
				}
				v, f := checkRoundTripFacts(c)
				ev.Eval(c.Text, true)
				ev.Sample(name, c.Text)
				if f.d8 {
					ev.KFCase("D8")
				}
				if !b.Check("c02.roundtrip", c, v) {
					return
				}
			}
			ev.Exhaustive(name, int64(len(cs)))
		})
	}
	run("operator_table", operatorTableCases())
	run("literal_table", literalTableCases())

	cfg := GenCfg{MaxNodes: 14, HardErrPct: 5,
		Keys:     append([]string{"a", "b", "c", "key"}, stringCorpus...),
		VarNames: []string{"x", "y", "a b", "é", "\u0007", "\U000e0001", "q\"q"},
		Strs:     append([]string{"a", "abc", "2015-08-01"}, stringCorpus...),
		Nums:     []float64{0.5, 1.5, 2.0, 4.0, 0.0, 1e3, 1e20, 1e21, 1e22, 1e-6, 1e-7, 1e308, 5e-324, 9007199254740993.0, 0.1, 123456789.125, 4611686018427387904.0, 1234567890123456789.0, 2.7000000001e18},
	}
	dcfg := DocCfg{}
	ev.rapidProp(t, "random", func(rt *rapid.T) {
		p := GenPath(rt, cfg)
		text := p.Canon()
		if rapid.IntRange(0, 2).Draw(rt, "spell") == 0 {
			text = Spell(rt, p)
		}
		c := RTCase{Text: text}
		for i := 0; i < 2; i++ {
			c.Docs = append(c.Docs, GenDoc(rt, dcfg, fmt.Sprintf("d%d", i)).Text())
		}
		v, f := checkRoundTripFacts(c)
		ev.Eval(text, rtNontrivial(p))
		if f.d8 {
			ev.KFCase("D8")
			ev.Label("in_D8_class")
		}
		ev.Sample("random", text)
		ev.Check(rt, "c02.roundtrip", c, v)
	})
}
