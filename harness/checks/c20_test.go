package checks

// C20 — cancellation is honoured at every step and never mistaken for a
// result. Fault enumeration: the context becomes done at the k-th time the
// executor polls it, for every k.

import (
	"context"
	"errors"
	"fmt"
	"strings"
	"testing"
	"time"

	"github.com/theory/sqljson/path/exec"
	"pgregory.net/rapid"
)

// countCtx is a deterministic fault injector: Done() hands out a closed
// channel from the k-th poll on. Value() forwards so that time zones work.
type countCtx struct {
	parent   context.Context
	k        int
	polls    int // Done() calls
	firedAt  int // poll index at which Done() first reported done; -1 if never
	err      error
	tickMode bool // the context becomes done at the k-th *use* (Done or Value), not only at a poll
	ticks    int  // Done() + Value() calls
	doneTick int  // tick at which the context became done (tickMode); -1 if not yet
	after    int  // uses of the context after it became done
}

var closedCh = func() chan struct{} { c := make(chan struct{}); close(c); return c }()

func newCountCtx(parent context.Context, k int, err error) *countCtx {
	return &countCtx{parent: parent, k: k, firedAt: -1, doneTick: -1, err: err}
}

func (c *countCtx) tick() {
	if c.doneTick >= 0 {
		c.after++
	} else if c.tickMode && c.k >= 0 && c.ticks >= c.k {
		c.doneTick = c.ticks
	}
	c.ticks++
}

func (c *countCtx) Deadline() (time.Time, bool) { return time.Time{}, false }
func (c *countCtx) Value(key any) any {
	c.tick()
	return c.parent.Value(key)
}

func (c *countCtx) Done() <-chan struct{} {
	c.tick()
	i := c.polls
	c.polls++
	if (c.tickMode && c.doneTick >= 0) || (!c.tickMode && c.k >= 0 && i >= c.k) {
		if c.firedAt < 0 {
			c.firedAt = i
			if c.doneTick < 0 {
				c.doneTick = c.ticks - 1
			}
		}
		return closedCh
	}
	return nil // a nil channel is never ready: not done yet
}

func (c *countCtx) Err() error {
	if c.firedAt >= 0 || c.doneTick >= 0 || c.k == 0 { // k == 0: the context is done before the call
		return c.err
	}
	return nil
}

// CancelCase: one (path, document, options) triple; the check sweeps k.
type CancelCase struct {
	Exec ExecCase `json:"exec"`
	// OnlyK restricts the sweep to one fault point (set in shrunk replays).
	OnlyK *int `json:"only_k,omitempty"`
}

type cancelFacts struct {
	runs, midRuns int
	polls         int
	maxExtra      int
	interesting   bool
}

var entryNames = []string{"Query", "First", "Exists", "Match", "ExistsOrMatch"}

func runEntry(i int, ctx context.Context, pr *prepared, silent bool) Outcome {
	opt := pr.opts(silent)
	switch i {
	case 0:
		return RunQuery(ctx, pr.p, pr.doc, opt...)
	case 1:
		return RunFirst(ctx, pr.p, pr.doc, opt...)
	case 2:
		return RunExists(ctx, pr.p, pr.doc, opt...)
	case 3:
		return RunMatch(ctx, pr.p, pr.doc, opt...)
	default:
		return RunExistsOrMatch(ctx, pr.p, pr.doc, opt...)
	}
}

var checkCancel = register("c20.cancel", func(c CancelCase) *Violation {
	v, _ := checkCancelFacts(c)
	return v
})

func checkCancelFacts(c CancelCase) (v *Violation, f cancelFacts) {
	pr, err := prepare(c.Exec)
	if err != nil {
		return nil, f
	}
	f.interesting = pr.tree.Root.Has(func(n *Node) bool {
		switch n.K {
		case KFilter, KExists, KIsUnknown, KAny, KRegex:
			return true
		case KBin:
			return !isArithOp(n.S)
		case KUn:
			return n.S == "!"
		case KIdx:
			for _, s := range n.Subs {
				if s.From.K != KInt || (s.To != nil && s.To.K != KInt) {
					return true
				}
			}
		}
		return false
	})
	nodes := pr.tree.Root.Count()
	open := pr.orderOpen()
	for _, silent := range []bool{false, true} {
		for e := range entryNames {
			base := newCountCtx(pr.ctx, -1, nil)
			ref := runEntry(e, base, pr, silent)
			if ref.Panic != "" {
				return nil, f
			}
			n := base.polls
			f.polls += n
			// the poll count may vary by a few with the member order; sweep a little beyond
			hi := n
			if open {
				hi = n + 3
			}
			// second sweep: the context becomes done at the k-th *use* (poll or Value lookup, e.g. the
			// time-zone lookups of datetime steps): the executor may legitimately miss a cancellation
			// that arrives after its last poll, but it must not keep evaluating step after step
			if base.ticks > base.polls && c.OnlyK == nil {
				for k := 0; k <= base.ticks; k++ {
					cc := newCountCtx(pr.ctx, k, context.Canceled)
					cc.tickMode = true
					o := runEntry(e, cc, pr, silent)
					f.runs++
					if o.Panic != "" {
						return violf("%s(%q) panicked with the context done at use %d: %s", entryNames[e], c.Exec.Path, k, o.Panic), f
					}
					if cc.doneTick >= 0 && o.Err == nil && cc.after > nodes+2 {
						return violf("%s(%q, %s, silent=%v): the context became done at its use %d of %d, the executor went on to use it %d more times (bound %d) and returned a normal outcome %s", entryNames[e], c.Exec.Path, c.Exec.Doc, silent, k, base.ticks, cc.after, nodes+2, o), f
					}
					if cc.firedAt >= 0 && (o.Err == nil || !errors.Is(o.Err, context.Canceled) || !errors.Is(o.Err, exec.ErrExecution)) {
						return violf("%s(%q, %s, silent=%v): the executor polled the done context (use %d) but returned %s", entryNames[e], c.Exec.Path, c.Exec.Doc, silent, k, o), f
					}
				}
			}
			for k := 0; k <= hi; k++ {
				if c.OnlyK != nil && *c.OnlyK != k {
					continue
				}
				for _, cerr := range []error{context.Canceled, context.DeadlineExceeded} {
					cc := newCountCtx(pr.ctx, k, cerr)
					o := runEntry(e, cc, pr, silent)
					f.runs++
					if k > 0 && k < n {
						f.midRuns++
					}
					at := fmt.Sprintf("%s(%q, %s, silent=%v) with the context done at poll %d of %d (%v)", entryNames[e], c.Exec.Path, c.Exec.Doc, silent, k, n, cerr)
					if o.Panic != "" {
						return violf("%s panicked: %s", at, o.Panic), f
					}
					if cc.firedAt < 0 && k == 0 {
						return violf("%s: the context was done before the call, yet the executor never looked at it and returned %s", at, o), f
					}
					if cc.firedAt < 0 {
						// the context never reported done during this call: same outcome as uncancelled
						if !open && (o.Class != ref.Class || o.Bool != ref.Bool || !sameSeq(RenderSeq(o.Items, false), RenderSeq(ref.Items, false)) || Render(o.Item, false) != Render(ref.Item, false)) {
							return violf("%s: the context was never observed done, yet the outcome %s differs from the uncancelled %s", at, o, ref), f
						}
						continue
					}
					// the executor saw the context done
					if o.Err == nil {
						return violf("%s returned a normal outcome (%s): the cancellation was converted into a result", at, o), f
					}
					if o.Err == exec.NULL { //nolint:errorlint
						return violf("%s returned NULL: the cancellation was converted into an unknown result", at), f
					}
					if !errors.Is(o.Err, exec.ErrExecution) || !errors.Is(o.Err, cerr) {
						return violf("%s returned %q, which does not wrap both exec.ErrExecution and the context's error", at, o.Err), f
					}
					if errors.Is(o.Err, exec.ErrVerbose) {
						return violf("%s returned the cancellation as a suppressible (ErrVerbose) error: %v", at, o.Err), f
					}
					if o.Items != nil || o.Item != nil || o.Bool {
						return violf("%s returned items/true together with the cancellation error: %s", at, o), f
					}
					extra := cc.polls - cc.firedAt - 1
					if extra > f.maxExtra {
						f.maxExtra = extra
					}
					if extra > nodes+2 {
						return violf("%s: %d further evaluation steps were started after the context was observed done (bound %d)", at, extra, nodes+2), f
					}
				}
			}
		}
	}
	// standard-library contexts that are already done, with and without a cause
	if c.OnlyK == nil {
		for e := range entryNames {
			for _, mk := range []struct {
				name string
				ctx  func() (context.Context, error)
			}{
				{"WithCancel", func() (context.Context, error) {
					cx, cancel := context.WithCancel(pr.ctx)
					cancel()
					return cx, context.Canceled
				}},
				{"WithCancelCause", func() (context.Context, error) {
					cx, cancel := context.WithCancelCause(pr.ctx)
					cancel(errors.New("shutting down"))
					return cx, context.Canceled
				}},
				{"WithDeadline(past)", func() (context.Context, error) {
					cx, cancel := context.WithDeadline(pr.ctx, time.Unix(0, 0))
					_ = cancel
					return cx, context.DeadlineExceeded
				}},
				{"WithDeadlineCause(past)", func() (context.Context, error) {
					cx, cancel := context.WithDeadlineCause(pr.ctx, time.Unix(0, 0), errors.New("budget spent"))
					_ = cancel
					return cx, context.DeadlineExceeded
				}},
			} {
				cx, want := mk.ctx()
				o := runEntry(e, cx, pr, true)
				f.runs++
				if o.Panic != "" || o.Err == nil || !errors.Is(o.Err, exec.ErrExecution) || !errors.Is(o.Err, want) || errors.Is(o.Err, exec.ErrVerbose) || o.Items != nil || o.Item != nil || o.Bool {
					return violf("%s(%q, %s) with an already done %s context returned %s; want an error wrapping exec.ErrExecution and %v, and no items", entryNames[e], c.Exec.Path, c.Exec.Doc, mk.name, o, want), f
				}
			}
		}
	}
	return nil, f
}

// cancelPool covers every node kind and every consumer of (status, error).
func cancelPool() []ExecCase {
	type pd struct{ p, d string }
	docA := `{"a":[1,2,{"b":3}],"b":{"c":[4,5]},"s":"abc","t":"2015-08-01T12:00:00+01:00","d":"2015-08-01"}`
	docB := `[1,"a",null,[2,3],{"a":1,"b":[1,2]}]`
	docD := `["2023-01-01","2023-01-02T00:00:00+00:00","2023-01-03","2023-01-04T00:00:00+01:00","2023-01-05","2023-01-06T00:00:00+00:00","2023-01-07","2023-01-08T00:00:00+02:00","2023-01-09","2023-01-10T00:00:00+00:00"]`
	docC := `["2015-08-01T12:00:00+01:00","2015-08-02T12:00:00+01:00","2015-08-03T12:00:00+01:00","2015-08-04T12:00:00+01:00","2015-08-05T12:00:00+01:00","2015-08-06T12:00:00+01:00","2015-08-07T12:00:00+01:00","2015-08-08T12:00:00+01:00","2015-08-09T12:00:00+01:00","2015-08-10T12:00:00+01:00","2015-08-11T12:00:00+01:00","2015-08-12T12:00:00+01:00","2015-08-13T12:00:00+01:00","2015-08-14T12:00:00+01:00"]`
	pool := []pd{
		{"$", docA}, {"$.a", docA}, {"$.a[*]", docA}, {"$.*", docB}, {"$[*]", docB}, {"$.**", docB}, {"$.**{1 to 2}", docA}, {"$.**{last}", docA}, {"strict $.**.b", docA},
		{"$.a[0]", docA}, {"$.a[0 to 1]", docA}, {"$.a[last]", docA}, {"$.a[last - 1, 0]", docA}, {"$.a[$.a[0]]", docA}, {"$.a[$.a[0] to $.a[1]]", docA}, {"$[3][$[0]]", docB},
		{"$.a ? (@ > 1)", docA}, {"$.a[*] ? (@ > 1)", docA}, {"$.a ? (@ > 1 && @ < 3)", docA}, {"$.a ? (@ > 1 || @ == 1)", docA}, {"$.a ? (!(@ > 1))", docA}, {"$.a ? ((@ > 1) is unknown)", docA},
		{"$.a ? ((@.b > 1) is unknown)", docA}, {"$ ? (exists(@.a))", docA}, {"$ ? (exists(@.a ? (@ > 1)))", docA}, {"$.a ? (@ > 1) ? (@ < 3)", docA}, {"$ ? (@.s starts with \"a\")", docA}, {"$ ? (@.s like_regex \"^a\" flag \"i\")", docA},
		{"$ ? (@.a[*] > $x)", docA}, {"$ ? (@.s starts with $s)", docA},
		{"$.a == 1", docA}, {"$.a[*] > 1", docA}, {"exists($.a)", docA}, {"exists($.a ? (@ > 5))", docA}, {"($.a > 1) is unknown", docA}, {"(($.a > 1) is unknown) is unknown", docA}, {"!($.a > 1)", docA}, {"!(($.a > 1) is unknown)", docA},
		{"$.a > 1 && $.b.c > 1", docA}, {"$.a > 9 || $.b.c > 1", docA}, {"($.a > 1 && $.zz > 1) is unknown", docA}, {"$.s starts with \"a\"", docA}, {"$.s like_regex \"b\"", docA},
		{"($.a > 1).type()", docA}, {"(exists($.a)).type()", docA}, {"(($.a > 1) is unknown).string()", docA},
		{"$.a[0] + 1", docA}, {"$.a[0] * $.a[1]", docA}, {"-$.a[0]", docA}, {"+$.a[0 to 1]", docA}, {"-$.a[*] ? (@ > 1)", docA}, {"($.a[0] + 1).abs()", docA}, {"$.a[0] / 0", docA},
		{"$.a.size()", docA}, {"$.a.type()", docA}, {"$.a[0].abs()", docA}, {"$.a[0 to 1].floor()", docA}, {"$.a[0].ceiling()", docA}, {"$.a[0].double()", docA}, {"$.a[0].integer()", docA}, {"$.a[0].bigint()", docA}, {"$.a[0].number()", docA},
		{"$.a[0].decimal(5,2)", docA}, {"$.a[0].string()", docA}, {"$.a[0].boolean()", docA}, {"$.b.keyvalue()", docA}, {"$.b.keyvalue().value", docA}, {"$.keyvalue().key", docA}, {"$.keyvalue() ? (@.key starts with \"a\").value", docA},
		{"$.t.datetime()", docA}, {"$.t.timestamp_tz()", docA}, {"$.t.timestamp_tz().string()", docA}, {"$.d.date()", docA}, {"$.d.datetime() < $.t.datetime()", docA}, {"$.t.time_tz(2)", docA}, {"$.t.timestamp()", docA}, {"$.d.timestamp().type()", docA},
		{"$ ? (@.d.datetime() < \"2016-01-01\".datetime())", docA}, {"$x", docA}, {"$x.a", docA}, {"$x[*] ? (@ > 1)", docA}, {"\"a\"", docA}, {"1 + 2", docA}, {"(1).type()", docA}, {"null", docA}, {"true", docA}, {"\"abc\" starts with \"a\"", docA},
		{"strict $.a[*].b", docA}, {"strict $.nokey", docA}, {"strict $ ? (@.nokey == 1)", docA}, {"strict ($.nokey == 1) is unknown", docA}, {"strict exists($.nokey)", docA}, {"strict $.a[5]", docA}, {"$.a[5]", docA},
		{"$[*] ? (@ == 1 || @ == \"a\")", docB}, {"$[*] ? (@.a == 1)", docB}, {"$[*] ? (exists(@.b[*] ? (@ > 1)))", docB}, {"$[*].a", docB}, {"strict $[*] ? ((@.a == 1) is unknown)", docB}, {"$[*] ? (@ starts with \"a\")", docB},
		{"$[*] ? (@ like_regex \"a\")", docB}, {"$[*].type()", docB}, {"$[3][*] ? (@ > $[0])", docB}, {"$[4].b[last] ? (@ > 1)", docB}, {"$.**{2} ? (@ > 1)", docB}, {"$.** ? (@.type() == \"number\")", docB},
		{"$[*] ? (((@ > 1) is unknown) || @ == 1)", docB},
		// predicates over two sequences whose pairs each consult the context zone (cross-type datetime casts): the pair loop
		{"strict $[*].datetime() < $[*].datetime()", docD}, {"strict $[*].date() == $[*].timestamp_tz()", docD}, {"$[*].datetime() > \"2030-01-01T00:00:00+00:00\".datetime()", docD},
		{"strict $[*] ? (@.timestamp_tz() >= $[*].date())", docD},
		{"$[*].timestamp_tz()", docC}, {"$[*].timestamp_tz().string()", docC}, {"$[*].date()", docC}, {"$[*] ? (@.datetime() < \"2016-01-01\".datetime())", docC}, {"$.**.time_tz()", docC}, {"strict $[0 to last].timestamp()", docC}, {"($[*] > 1) is unknown && exists($[4].a)", docB}, {"$[0 to (($[0] == 1) is unknown).size()]", docB},
	}
	var out []ExecCase
	for _, x := range pool {
		out = append(out, ExecCase{Path: x.p, Doc: x.d, Opts: Opts{TZ: true, HasVars: true, Vars: map[string]string{"x": `[1,2,3]`, "s": `"ab"`}}})
	}
	return out
}

// PollCase: "after a bounded number of further evaluation steps" means a bound that does not grow with
// the input. The work a path does on a document of n elements is known (elements visited, pairs
// compared); the executor must look at the context at least once per 1,024 units of it, whatever n is.
type PollCase struct {
	Path string `json:"path"`
	Kind string `json:"kind"` // array | tree | object | nested
	N    int    `json:"n"`
	Work string `json:"work"` // n | n2 (pairs)
	// Base, if set, is the path without the outermost value-sized phase of Path (for -$[*], the wildcard
	// without the negation of its n items): that phase alone must contribute its share of looks, which the
	// total cannot show when an earlier phase looks at the context once per element (D52).
	Base string `json:"base,omitempty"`
}

func (c PollCase) doc() any {
	num := func(i int) any { return float64(i % 7) }
	switch c.Kind {
	case "array":
		a := make([]any, c.N)
		for i := range a {
			a[i] = num(i)
		}
		return a
	case "object":
		m := make(map[string]any, c.N)
		for i := 0; i < c.N; i++ {
			m[fmt.Sprintf("k%06d", i)] = num(i)
		}
		return m
	case "nested": // an array of n small arrays
		a := make([]any, c.N)
		for i := range a {
			a[i] = []any{num(i), num(i + 1)}
		}
		return a
	default: // a 10-ary tree with about n nodes
		var build func(n int) any
		build = func(n int) any {
			if n <= 1 {
				return num(n)
			}
			kids := make([]any, 0, 10)
			per := (n - 1) / 10
			for i := 0; i < 10; i++ {
				kids = append(kids, build(per))
			}
			return kids
		}
		return build(c.N)
	}
}

var checkPollDensity = register("c20.polldensity", func(c PollCase) *Violation {
	p, err, pan := ParseSafe(c.Path)
	if err != nil || pan != "" {
		return violf("harness: %q does not parse: %v %s", c.Path, err, pan)
	}
	doc := c.doc()
	cc := newCountCtx(context.Background(), -1, nil)
	o := RunQuery(cc, p, doc)
	if o.Panic != "" {
		return violf("Query(%q) on a %s of %d panicked: %s", c.Path, c.Kind, c.N, o.Panic)
	}
	work := c.N
	if c.Work == "n2" {
		work = c.N * c.N
	}
	if need := work / 1024; cc.polls < need {
		return violf("Query(%q) on a %s document of size %d does about %d units of work (elements visited / pairs compared) but looked at the context only %d times: a context that becomes done is not noticed within a bounded number of steps (at least one look per 1,024 units = %d expected)", c.Path, c.Kind, c.N, work, cc.polls, need)
	}
	if c.Base != "" {
		bp, err, pan := ParseSafe(c.Base)
		if err != nil || pan != "" {
			return violf("harness: %q does not parse: %v %s", c.Base, err, pan)
		}
		bc := newCountCtx(context.Background(), -1, nil)
		bo := RunQuery(bc, bp, doc)
		if bo.Panic != "" {
			return violf("Query(%q) on a %s of %d panicked: %s", c.Base, c.Kind, c.N, bo.Panic)
		}
		items := len(bo.Items)
		if bo.Class != EOK || items < c.N/20 {
			return violf("harness: base path %q returned %s / %d items on a %s of %d", c.Base, bo.Class, items, c.Kind, c.N)
		}
		if need := items / 1024; cc.polls-bc.polls < need {
			return violf("Query(%q) on a %s document of size %d looks at the context %d times, Query(%q) %d times: the additional pass over its %d items is made with only %d looks (at least one per 1,024 items = %d expected), so a context that becomes done during it is not noticed within a bounded number of steps", c.Path, c.Kind, c.N, cc.polls, c.Base, bc.polls, items, cc.polls-bc.polls, need)
		}
	}
	return nil
})

func pollCases() []PollCase {
	var out []PollCase
	for _, n := range []int{20000, 200000} {
		out = append(out,
			PollCase{Path: "$[*]", Kind: "array", N: n, Work: "n"}, PollCase{Path: "$[0 to last]", Kind: "array", N: n, Work: "n"}, PollCase{Path: "strict $[*]", Kind: "array", N: n, Work: "n"},
			PollCase{Path: "$.*", Kind: "object", N: n, Work: "n"}, PollCase{Path: "$.**", Kind: "tree", N: n, Work: "n"}, PollCase{Path: "$.**{3}", Kind: "tree", N: n, Work: "n"}, PollCase{Path: "strict $.**{1 to last}", Kind: "tree", N: n, Work: "n"},
			PollCase{Path: "$.**{9}.x", Kind: "tree", N: n, Work: "n"}, PollCase{Path: "$.keyvalue()", Kind: "object", N: n, Work: "n"}, PollCase{Path: "$[*][0]", Kind: "nested", N: n, Work: "n"},
			PollCase{Path: "$[*] ? (@ > 100)", Kind: "array", N: n, Work: "n"}, PollCase{Path: "-$[*]", Kind: "array", N: n, Work: "n"}, PollCase{Path: "$[*].abs()", Kind: "array", N: n, Work: "n"},
			PollCase{Path: "-$[*]", Kind: "array", N: n, Work: "n", Base: "$[*]"}, PollCase{Path: "+$[*]", Kind: "array", N: n, Work: "n", Base: "$[*]"}, PollCase{Path: "(-$[*]).abs()", Kind: "array", N: n, Work: "n", Base: "-$[*]"},
			PollCase{Path: "$[*] + 1", Kind: "array", N: n, Work: "n", Base: "$[*]"}, PollCase{Path: "$[*].abs()", Kind: "array", N: n, Work: "n", Base: "$[*]"}, PollCase{Path: "$[*] ? (@ > 100)", Kind: "array", N: n, Work: "n", Base: "$[*]"},
			PollCase{Path: "$[*][0]", Kind: "nested", N: n, Work: "n", Base: "$[*]"}, PollCase{Path: "$.keyvalue().value", Kind: "object", N: n, Work: "n", Base: "$.keyvalue()"}, PollCase{Path: "$.*.abs()", Kind: "object", N: n, Work: "n", Base: "$.*"},
			PollCase{Path: "$.**.type()", Kind: "tree", N: n, Work: "n", Base: "$.**"}, PollCase{Path: "- $.**{2 to last}", Kind: "tree", N: n / 2, Work: "n", Base: "$.**{2 to last}"},
			PollCase{Path: "exists($[*] ? (@ > 100))", Kind: "array", N: n, Work: "n"}, PollCase{Path: "$.** ? (@ > 100)", Kind: "tree", N: n, Work: "n"})
	}
	// every operation that makes one more pass over the items of a path adds its share of looks (D52): bases that
	// return about n numbers x wrappers that handle each of them
	for _, n := range []int{20000, 200000} {
		for _, b := range []struct{ path, kind string }{{"$[*]", "array"}, {"$[0 to last]", "array"}, {"strict $[*]", "array"}, {"$.*", "object"}, {"$[*][*]", "nested"}, {"$[*][1]", "nested"}, {"$.**{last}", "tree"}, {"$[*] ? (@ >= 0)", "array"}, {"$.keyvalue().value", "object"}} {
			for _, w := range []string{"-(%s)", "+(%s)", "-(-(%s))", "(%s) + 1", "1 - (%s)", "(%s).abs()", "(%s).type()", "(%s).string()", "(%s).double()", "(%s).size()", "(%s) ? (@ > 100)", "(%s) ? (@ > 100 || @ < 3)", "(%s) == 100", "(%s) > 100 && 1 == 1", "!((%s) == 100)", "((%s) == 100) is unknown", `(%s) starts with "a"`, `(%s) like_regex "a"`, "(%s)[0]", "(%s)[0 to last]", "(%s).a", "(%s).*", "(%s).bigint()", "(%s).decimal(5,1)", "(%s).floor()", "(%s).boolean()", "(%s).number().ceiling()"} {
				base, path := b.path, fmt.Sprintf(w, strings.TrimPrefix(b.path, "strict "))
				if strings.HasPrefix(base, "strict ") {
					// (in strict mode these stop at the first number: a structural error, an operand that is
					// not unwrapped and fails the singleton check without another pass, a non-string operand)
					if strings.HasSuffix(w, "[0]") || strings.HasSuffix(w, "[0 to last]") || strings.HasSuffix(w, ".a") || strings.HasSuffix(w, ".*") || strings.HasSuffix(w, ".size()") || strings.Contains(w, " + 1") || strings.Contains(w, "1 - ") || strings.Contains(w, "starts with") || strings.Contains(w, "like_regex") {
						continue
					}
					path = "strict " + path
				}
				out = append(out, PollCase{Path: path, Kind: b.kind, N: n, Work: "n", Base: base})
			}
		}
	}
	for _, n := range []int{300, 1500} {
		out = append(out, PollCase{Path: "$[*] > $[*]", Kind: "array", N: n, Work: "n2"}, PollCase{Path: "strict $[*] == $[*]", Kind: "array", N: n, Work: "n2"}, PollCase{Path: `$[*] starts with "a"`, Kind: "array", N: n * n / 4, Work: "n"},
			PollCase{Path: "strict $ ? (@[*] < $[*])", Kind: "array", N: n, Work: "n2"})
	}
	// one item against a long sequence, on either side: the pair loop makes its own looks (not only one per left item)
	for _, n := range []int{20000, 200000} {
		for _, w := range []string{"$[0] > %s", "%s > $[0]", "strict $[0] == %s", "strict %s != $[0]", "strict $ ? (@[0] < %s)", "1 <= %s", "!(%s < $[1])"} {
			out = append(out, PollCase{Path: fmt.Sprintf(w, "$[*]"), Kind: "array", N: n, Work: "n", Base: "$[*]"})
		}
	}
	return out
}

func TestC20(t *testing.T) {
	ev := newEv(t, "C20")
	ev.replayTier(t)
	t.Run("poll_density", func(t *testing.T) {
		b := ev.enum(t)
		cs := pollCases()
		for i, c := range cs {
			if !mine(i) {
				continue
			}
			ev.Eval(fmt.Sprintf("poll:%s:%s:%d", c.Path, c.Kind, c.N), true)
			ev.Sample("poll_density", c)
			if !b.Check("c20.polldensity", c, checkPollDensity(c)) {
				return
			}
		}
		ev.Exhaustive("paths_by_document_size_poll_density", int64(len(cs)))
	})
	record := func(class string, c CancelCase, f cancelFacts) {
		// each (path, doc) contributes its runs; non-trivial = it had mid-execution fault points on an interesting path
		ev.mu.Lock()
		ev.evaluations += int64(f.runs)
		ev.labels["fault_runs_mid_execution"] += int64(f.midRuns)
		ev.labels["polls_uncancelled_total"] += int64(f.polls)
		if int64(f.maxExtra) > ev.labels["max_polls_after_done"] {
			ev.labels["max_polls_after_done"] = int64(f.maxExtra)
		}
		ev.mu.Unlock()
		if f.interesting && f.midRuns > 0 {
			for k := 0; k < f.midRuns; k++ {
				ev.nontriv[hash64(fmt.Sprintf("%s\x00%d", c.Exec.Key(), k))] = struct{}{}
			}
		}
		ev.Sample(class, map[string]any{"path": c.Exec.Path, "doc": c.Exec.Doc, "fault_runs": f.runs, "mid_execution_fault_runs": f.midRuns})
	}
	t.Run("pool", func(t *testing.T) {
		b := ev.enum(t)
		cs := cancelPool()
		for i, ec := range cs {
			if !mine(i) {
				continue
			}
			c := CancelCase{Exec: ec}
			v, f := checkCancelFacts(c)
			record("pool", c, f)
			if !b.Check("c20.cancel", c, v) {
				return
			}
		}
		ev.Exhaustive("fixed_pool_paths_every_fault_point", int64(len(cs)))
	})
	pcfg := GenCfg{MaxNodes: 12, HardErrPct: 5}
	dcfg := DocCfg{}
	ev.rapidProp(t, "random", func(rt *rapid.T) {
		ec, _ := genExecCase(rt, pcfg, dcfg)
		c := CancelCase{Exec: ec}
		if rapid.Bool().Draw(rt, "onek") {
			// let rapid own (and shrink) the fault point as well
			k := rapid.IntRange(0, 40).Draw(rt, "k")
			c.OnlyK = &k
		}
		v, f := checkCancelFacts(c)
		record("random", c, f)
		ev.Check(rt, "c20.cancel", c, v)
	})
}
