package checks

// Result rendering/comparison and error classification.

import (
	"context"
	"encoding/json"
	"errors"
	"fmt"
	"math"
	"math/big"
	"reflect"
	"sort"
	"strings"
	"sync"
	"time"
	_ "time/tzdata"

	"github.com/theory/sqljson/path"
	"github.com/theory/sqljson/path/exec"
	"github.com/theory/sqljson/path/types"
)

// Error classes.
const (
	EOK      = "ok"
	ESupp    = "suppressible"
	EHard    = "hard"
	ENull    = "NULL"
	EInvalid = "ErrInvalid"
	ECtx     = "context"
	EOther   = "unclassified"
	EPanic   = "panic"
)

// classify maps an error to its class per the documented taxonomy.
func classify(err error) string {
	switch {
	case err == nil:
		return EOK
	case err == exec.NULL: //nolint:errorlint // identity is the contract
		return ENull
	case errors.Is(err, exec.ErrInvalid):
		return EInvalid
	case errors.Is(err, context.Canceled), errors.Is(err, context.DeadlineExceeded):
		if errors.Is(err, exec.ErrExecution) && !errors.Is(err, exec.ErrVerbose) {
			return ECtx
		}
		return EOther
	case errors.Is(err, exec.ErrVerbose):
		return ESupp
	case errors.Is(err, exec.ErrExecution):
		return EHard
	}
	return EOther
}

// numRat returns the exact rational value of a result number.
func numRat(v any) (*big.Rat, bool) {
	switch v := v.(type) {
	case int64:
		return new(big.Rat).SetInt64(v), true
	case int:
		return new(big.Rat).SetInt64(int64(v)), true
	case float64:
		if math.IsInf(v, 0) || math.IsNaN(v) {
			return nil, false
		}
		return new(big.Rat).SetFloat64(v), true
	case json.Number:
		return ratFromText(string(v))
	}
	return nil, false
}

// ratFromText parses a JSON/jsonpath decimal number exactly; exponents beyond
// +-5000 are refused (cost), which no generator produces.
func ratFromText(s string) (*big.Rat, bool) {
	if i := strings.IndexAny(s, "eE"); i >= 0 {
		var e int
		if _, err := fmt.Sscanf(s[i+1:], "%d", &e); err != nil || e > 5000 || e < -5000 {
			return nil, false
		}
	}
	r, ok := new(big.Rat).SetString(s)
	return r, ok
}

// Render gives a canonical text for a result item: numbers by exact value
// (-0 = 0), datetimes by type and text, objects with sorted keys.
// stripIDs removes the id member of keyvalue triples.
func Render(v any, stripIDs bool) string {
	var b strings.Builder
	render(&b, v, stripIDs)
	return b.String()
}

func render(b *strings.Builder, v any, strip bool) {
	switch v := v.(type) {
	case nil:
		b.WriteString("null")
	case bool:
		fmt.Fprintf(b, "%v", v)
	case string:
		q, _ := json.Marshal(v)
		b.Write(q)
	case int64, int, float64, json.Number:
		if r, ok := numRat(v); ok {
			if r.IsInt() {
				b.WriteString(r.Num().String())
			} else {
				b.WriteString(r.RatString())
			}
		} else {
			fmt.Fprintf(b, "<non-finite %v>", v)
		}
	case []any:
		b.WriteByte('[')
		for i, e := range v {
			if i > 0 {
				b.WriteByte(',')
			}
			render(b, e, strip)
		}
		b.WriteByte(']')
	case map[string]any:
		ks := sortedKeys(v)
		triple := isTriple(v)
		b.WriteByte('{')
		first := true
		for _, k := range ks {
			if strip && triple && k == "id" {
				continue
			}
			if !first {
				b.WriteByte(',')
			}
			first = false
			q, _ := json.Marshal(k)
			b.Write(q)
			b.WriteByte(':')
			render(b, v[k], strip)
		}
		b.WriteByte('}')
	case exec.Vars:
		render(b, map[string]any(v), strip)
	case *types.Date:
		b.WriteString("<date " + v.String() + ">")
	case *types.Time:
		b.WriteString("<time " + v.String() + ">")
	case *types.TimeTZ:
		b.WriteString("<timetz " + v.String() + ">")
	case *types.Timestamp:
		b.WriteString("<timestamp " + v.String() + ">")
	case *types.TimestampTZ:
		b.WriteString("<timestamptz " + v.String() + " @" + v.UTC().Format(time.RFC3339Nano) + ">")
	default:
		fmt.Fprintf(b, "<?%T %v>", v, v)
	}
}

func isTriple(m map[string]any) bool {
	if len(m) != 3 {
		return false
	}
	_, a := m["id"]
	_, b := m["key"]
	_, c := m["value"]
	return a && b && c
}

// RenderSeq renders a result sequence item by item.
func RenderSeq(items []any, strip bool) []string {
	out := make([]string, len(items))
	for i, it := range items {
		out[i] = Render(it, strip)
	}
	return out
}

func sameSeq(a, b []string) bool {
	if len(a) != len(b) {
		return false
	}
	for i := range a {
		if a[i] != b[i] {
			return false
		}
	}
	return true
}

func sameMultiset(a, b []string) bool {
	if len(a) != len(b) {
		return false
	}
	x := append([]string(nil), a...)
	y := append([]string(nil), b...)
	sort.Strings(x)
	sort.Strings(y)
	return sameSeq(x, y)
}

// subMultiset reports whether a is a sub-multiset of b.
func subMultiset(a, b []string) bool {
	cnt := map[string]int{}
	for _, s := range b {
		cnt[s]++
	}
	for _, s := range a {
		if cnt[s] == 0 {
			return false
		}
		cnt[s]--
	}
	return true
}

func contains(ss []string, s string) bool {
	for _, x := range ss {
		if x == s {
			return true
		}
	}
	return false
}

// ---------------------------------------------------------------------------
// running the entry points

// Opts is the serialisable option set of a case.
type Opts struct {
	Silent    bool              `json:"silent,omitempty"`
	TZ        bool              `json:"tz,omitempty"`
	Zone      string            `json:"zone,omitempty"` // "", "UTC", "+05:30", "America/New_York" ...
	Vars      map[string]string `json:"vars,omitempty"` // name -> JSON text
	HasVars   bool              `json:"has_vars,omitempty"`
	UseNumber bool              `json:"use_number,omitempty"`
}

// Ctx builds the context carrying the case's zone.
func (o Opts) Ctx() context.Context {
	ctx := context.Background()
	if loc := zoneOf(o.Zone); loc != nil {
		// derived from a context that carries another zone: the innermost setting wins. The parent's zone
		// has the *name* of the case's zone and another offset (all fixed zones built from an offset are
		// named ""): a zone is what it does, not what it is called
		ctx = types.ContextWithTZ(ctx, outerZone)
		ctx = types.ContextWithTZ(ctx, time.FixedZone(loc.String(), 7*3600+1800))
		ctx = types.ContextWithTZ(ctx, loc)
	}
	return ctx
}

// outerZone: a zone unlike any the checks use, set on the parent context of every zoned context.
var outerZone = time.FixedZone("outer", 7*3600+1800)

func zoneOf(z string) *time.Location {
	switch z {
	case "":
		return nil
	case "UTC":
		return time.UTC
	}
	if z[0] == '+' || z[0] == '-' {
		var h, m int
		if _, err := fmt.Sscanf(z[1:], "%d:%d", &h, &m); err == nil {
			off := h*3600 + m*60
			if z[0] == '-' {
				off = -off
			}
			return time.FixedZone("", off)
		}
	}
	loc, err := time.LoadLocation(z)
	if err != nil {
		panic(err)
	}
	return loc
}

// VarsValue decodes the variables.
func (o Opts) VarsValue() exec.Vars {
	if !o.HasVars && len(o.Vars) == 0 {
		return nil
	}
	v := exec.Vars{}
	for k, txt := range o.Vars {
		v[k] = MustDecode(txt, o.UseNumber)
	}
	return v
}

// Options builds the exec options; vars may be passed in so that the caller
// keeps the identity of the map.
func (o Opts) Options(vars exec.Vars) []exec.Option {
	var out []exec.Option
	if vars != nil {
		out = append(out, exec.WithVars(vars))
	}
	if o.Silent {
		out = append(out, exec.WithSilent())
	}
	if o.TZ {
		out = append(out, exec.WithTZ())
	}
	return out
}

// Outcome of one entry-point call.
type Outcome struct {
	Items []any
	Item  any
	Bool  bool
	Err   error
	Class string
	Panic string
}

func (o Outcome) String() string {
	if o.Panic != "" {
		return "panic: " + o.Panic
	}
	return fmt.Sprintf("items=%v item=%v bool=%v class=%s err=%v", RenderSeq(o.Items, false), Render(o.Item, false), o.Bool, o.Class, o.Err)
}

func guard(o *Outcome) {
	if r := recover(); r != nil {
		o.Panic = fmt.Sprint(r)
		o.Class = EPanic
	}
}

func RunQuery(ctx context.Context, p *path.Path, doc any, opt ...exec.Option) (o Outcome) {
	defer guard(&o)
	o.Items, o.Err = p.Query(ctx, doc, opt...)
	o.Class = classify(o.Err)
	return
}

func RunFirst(ctx context.Context, p *path.Path, doc any, opt ...exec.Option) (o Outcome) {
	defer guard(&o)
	o.Item, o.Err = p.First(ctx, doc, opt...)
	o.Class = classify(o.Err)
	return
}

func RunExists(ctx context.Context, p *path.Path, doc any, opt ...exec.Option) (o Outcome) {
	defer guard(&o)
	o.Bool, o.Err = p.Exists(ctx, doc, opt...)
	o.Class = classify(o.Err)
	return
}

func RunMatch(ctx context.Context, p *path.Path, doc any, opt ...exec.Option) (o Outcome) {
	defer guard(&o)
	o.Bool, o.Err = p.Match(ctx, doc, opt...)
	o.Class = classify(o.Err)
	return
}

func RunExistsOrMatch(ctx context.Context, p *path.Path, doc any, opt ...exec.Option) (o Outcome) {
	defer guard(&o)
	o.Bool, o.Err = p.ExistsOrMatch(ctx, doc, opt...)
	o.Class = classify(o.Err)
	return
}

// ParseSafe parses with panic capture.
func ParseSafe(s string) (p *path.Path, err error, panicked string) {
	defer func() {
		if r := recover(); r != nil {
			panicked = fmt.Sprint(r)
		}
	}()
	p, err = path.Parse(s)
	return
}

// deepCopy clones JSON-ish values.
func deepCopy(v any) any {
	switch v := v.(type) {
	case []any:
		out := make([]any, len(v))
		for i, e := range v {
			out[i] = deepCopy(e)
		}
		return out
	case map[string]any:
		out := make(map[string]any, len(v))
		for k, e := range v {
			out[k] = deepCopy(e)
		}
		return out
	case exec.Vars:
		if v == nil {
			return v
		}
		out := make(exec.Vars, len(v))
		for k, e := range v {
			out[k] = deepCopy(e)
		}
		return out
	}
	return v
}

func deepEqualJSON(a, b any) bool { return reflect.DeepEqual(a, b) }

var (
	keyOrderOnce sync.Once
	keyOrder     bool
)

// membersInKeyOrder probes, once per process, whether .* and .** visit the members of an object
// in the order of their sorted keys (the order the reference model uses). If they do, no
// sequence order is open and every comparison is exact; if the implementation iterates in an
// unspecified (random) order, the checks fall back on multiset comparison and on skipping the
// cases whose very outcome depends on the order.
func membersInKeyOrder() bool {
	keyOrderOnce.Do(func() {
		p1, e1, _ := ParseSafe("$.*")
		p2, e2, _ := ParseSafe("$.**")
		if e1 != nil || e2 != nil {
			return
		}
		doc := MustDecode(`{"f":6,"b":2,"e":{"z":51,"y":52,"x":53,"w":54},"a":1,"d":4,"c":3,"g":7,"h":8}`, false)
		want1 := "[1 2 3 4 {\"w\":54,\"x\":53,\"y\":52,\"z\":51} 6 7 8]"
		want2 := "[{\"a\":1,\"b\":2,\"c\":3,\"d\":4,\"e\":{\"w\":54,\"x\":53,\"y\":52,\"z\":51},\"f\":6,\"g\":7,\"h\":8} 1 2 3 4 {\"w\":54,\"x\":53,\"y\":52,\"z\":51} 54 53 52 51 6 7 8]"
		for i := 0; i < 40; i++ {
			o1 := RunQuery(context.Background(), p1, doc)
			o2 := RunQuery(context.Background(), p2, doc)
			if fmt.Sprint(RenderSeq(o1.Items, false)) != want1 || fmt.Sprint(RenderSeq(o2.Items, false)) != want2 {
				return
			}
		}
		keyOrder = true
	})
	return keyOrder
}

// orderOpen is the syntactic over-approximation of "the evaluation iterates
// the members of an object with two or more members": member order is random
// on every call, so sequence order and which error is met first are open.
func orderOpen(root *Node, docs ...any) bool {
	if membersInKeyOrder() {
		return false
	}
	wild := root.Has(func(n *Node) bool { return n.K == KAnyKey || n.K == KAny })
	if !wild {
		return false
	}
	if root.Has(func(n *Node) bool { return n.K == KMethod && n.S == "keyvalue" }) {
		return true
	}
	for _, d := range docs {
		if v, ok := d.(exec.Vars); ok {
			for _, e := range v {
				if maxMembers(e) >= 2 {
					return true
				}
			}
			continue
		}
		if maxMembers(d) >= 2 {
			return true
		}
	}
	return false
}
