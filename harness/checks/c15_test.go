package checks

// C15 — wildcards and recursive descent visit exactly the right nodes once.

import (
	"context"
	"fmt"
	"math"
	"strings"
	"testing"

	"pgregory.net/rapid"
)

// WildCase: one wildcard accessor (with optional member-accessor tail) on a tree.
type WildCase struct {
	Strict    bool   `json:"strict,omitempty"`
	Doc       string `json:"doc"`
	Acc       string `json:"acc"` // ".*" | "[*]" | "**"
	First     int64  `json:"first,omitempty"`
	Last      int64  `json:"last,omitempty"` // -1 = last
	Tail      string `json:"tail,omitempty"` // "" | ".a" | ".*"
	UseNumber bool   `json:"use_number,omitempty"`
}

func (c WildCase) pathText() string {
	p := "$"
	switch c.Acc {
	case ".*":
		p += ".*"
	case "[*]":
		p += "[*]"
	default:
		p += "." + canonAny(&Node{K: KAny, First: c.First, Last: c.Last})
	}
	p += c.Tail
	if c.Strict {
		p = "strict " + p
	}
	return p
}

type wildFacts struct {
	nontrivial  bool
	open        bool
	excludedD19 bool
}

type wnode struct {
	v     any
	depth int
}

// preorder lists every node below (and including) v with its depth; object
// members in sorted-key order (the comparison is a multiset one when any
// object has two or more members).
func preorder(v any, depth int, out *[]wnode) {
	*out = append(*out, wnode{v, depth})
	switch x := v.(type) {
	case []any:
		for _, e := range x {
			preorder(e, depth+1, out)
		}
	case map[string]any:
		for _, k := range sortedKeys(x) {
			preorder(x[k], depth+1, out)
		}
	}
}

func isScalarLeaf(v any) bool {
	switch v.(type) {
	case []any, map[string]any:
		return false
	}
	return true
}

var checkWild = register("c15.wild", func(c WildCase) *Violation {
	v, _ := checkWildFacts(c)
	return v
})

func checkWildFacts(c WildCase) (*Violation, wildFacts) {
	var f wildFacts
	text := c.pathText()
	p, err, pan := ParseSafe(text)
	if err != nil || pan != "" {
		return violf("harness: %q does not parse: %v %s", text, err, pan), f
	}
	doc, derr := Decode(c.Doc, c.UseNumber)
	if derr != nil {
		return nil, f
	}
	f.open = maxMembers(doc) >= 2 && !membersInKeyOrder()
	got := RunQuery(context.Background(), p, doc)
	if got.Panic != "" {
		return violf("%q on %s panicked: %s", text, c.Doc, got.Panic), f
	}
	// oracle: which nodes the accessor selects, in document pre-order
	var sel []any
	wantErr := ""
	switch c.Acc {
	case ".*":
		switch x := doc.(type) {
		case map[string]any:
			for _, k := range sortedKeys(x) {
				sel = append(sel, x[k])
			}
		case []any:
			if c.Strict {
				wantErr = "strict .* on an array"
			} else {
				for _, e := range x { // one level of unwrapping
					if m, ok := e.(map[string]any); ok {
						for _, k := range sortedKeys(m) {
							sel = append(sel, m[k])
						}
					}
				}
			}
		default:
			if c.Strict {
				wantErr = "strict .* on a scalar"
			}
		}
	case "[*]":
		if arr, ok := doc.([]any); ok {
			sel = append(sel, arr...)
		} else if c.Strict {
			wantErr = "strict [*] on a non-array"
		} else {
			sel = append(sel, doc)
		}
	default:
		var nodes []wnode
		preorder(doc, 0, &nodes)
		for _, n := range nodes {
			switch {
			case c.First == -1 && c.Last == -1: // .**{last}: the scalar leaves below the item
				if n.depth >= 1 && isScalarLeaf(n.v) {
					sel = append(sel, n.v)
				}
			case c.First == -1:
				// .**{last to b} is left open by the statement; handled by the caller
			default:
				if int64(n.depth) >= c.First && (c.Last == -1 || int64(n.depth) <= c.Last) {
					sel = append(sel, n.v)
				}
			}
		}
	}
	var want []any
	subscriptOpen, nullSelected := false, false
	if wantErr == "" {
		for _, x := range sel {
			switch c.Tail {
			case "":
				want = append(want, x)
			case ".a":
				switch y := x.(type) {
				case map[string]any:
					if v, ok := y["a"]; ok {
						want = append(want, v)
					} else if c.Strict && c.Acc != "**" {
						wantErr = "strict .a: missing key"
					}
				case []any:
					if c.Strict {
						if c.Acc != "**" {
							wantErr = "strict .a on an array"
						}
					} else {
						for _, e := range y {
							if m, ok := e.(map[string]any); ok {
								if v, ok := m["a"]; ok {
									want = append(want, v)
								}
							}
						}
					}
				default:
					if c.Strict && c.Acc != "**" {
						wantErr = "strict .a on a scalar"
					}
				}
			case "[0]", "[last]":
				switch y := x.(type) {
				case []any:
					switch {
					case len(y) > 0 && c.Tail == "[0]":
						want = append(want, y[0])
						nullSelected = nullSelected || y[0] == nil
					case len(y) > 0:
						want = append(want, y[len(y)-1])
						nullSelected = nullSelected || y[len(y)-1] == nil
					case c.Strict && c.Acc != "**":
						wantErr = "strict subscript out of bounds"
					case c.Strict:
						subscriptOpen = true
					}
				default:
					if !c.Strict {
						want = append(want, x) // lax: a non-array behaves as a one-element array
						nullSelected = nullSelected || x == nil
					} else if c.Acc != "**" {
						wantErr = "strict subscript on a non-array"
					} else {
						// below strict .** the statement leaves open whether the mismatch is an
						// error or is skipped; it is never an element
						subscriptOpen = true
					}
				}
			case ".*":
				switch y := x.(type) {
				case map[string]any:
					for _, k := range sortedKeys(y) {
						want = append(want, y[k])
					}
				case []any:
					if c.Strict {
						if c.Acc != "**" {
							wantErr = "strict .* on an array"
						}
					} else {
						for _, e := range y {
							if m, ok := e.(map[string]any); ok {
								for _, k := range sortedKeys(m) {
									want = append(want, m[k])
								}
							}
						}
					}
				default:
					if c.Strict && c.Acc != "**" {
						wantErr = "strict .* on a scalar"
					}
				}
			}
			if wantErr != "" {
				break
			}
		}
	}
	at := fmt.Sprintf("%q on %s", text, c.Doc)
	if c.Acc == "**" && c.First == -1 && c.Last != -1 {
		// left open: only totality is required
		return nil, f
	}
	if nullSelected {
		// a selected element is JSON null: open finding D19 (C14's) drops it
		f.excludedD19 = true
		return nil, f
	}
	if subscriptOpen && wantErr == "" {
		// either a structural error, or exactly the elements of the selected arrays
		if got.Class == ESupp {
			return nil, f
		}
		if got.Class != EOK {
			return violf("%s: want a structural error or %v, got %s", at, RenderSeq(want, false), got), f
		}
		w, g := RenderSeq(want, false), RenderSeq(got.Items, false)
		ok := sameSeq(w, g)
		if f.open {
			ok = sameMultiset(w, g)
		}
		if !ok {
			return violf("%s: in strict mode a non-array is not subscriptable: the selected arrays give %v (or a structural error), Query returned %v", at, w, g), f
		}
		f.nontrivial = true
		return nil, f
	}
	if wantErr != "" {
		f.nontrivial = true
		if f.open && c.Tail != "" {
			// a strict tail error may or may not be met first... it is always met in a complete evaluation
		}
		if got.Class != ESupp {
			return violf("%s: a structural error is required (%s) but Query returned %s", at, wantErr, got), f
		}
		return nil, f
	}
	if got.Class != EOK {
		return violf("%s: the walk selects %v but Query failed: %v", at, RenderSeq(want, false), got.Err), f
	}
	w, g := RenderSeq(want, false), RenderSeq(got.Items, false)
	ok := sameSeq(w, g)
	if f.open {
		ok = sameMultiset(w, g)
	}
	if !ok {
		return violf("%s: the tree walk selects %v but Query returned %v", at, w, g), f
	}
	// existence mode must agree with the walk: Exists is true exactly when a node is selected
	if ex := RunExists(context.Background(), p, doc); ex.Panic != "" || ex.Class != EOK || ex.Bool != (len(want) > 0) {
		return violf("%s: the walk selects %d node(s) but Exists = %v, %v%s", at, len(want), ex.Bool, ex.Err, ex.Panic), f
	}
	if fi := RunFirst(context.Background(), p, doc); fi.Panic != "" || fi.Class != EOK || (len(want) == 0 && fi.Item != nil) || (len(want) > 0 && !contains(w, Render(fi.Item, false))) {
		return violf("%s: First returned %s, %v; the walk selects %v", at, Render(fi.Item, false), fi.Err, w), f
	}
	var all []wnode
	preorder(doc, 0, &all)
	depth := 0
	for _, n := range all {
		depth = max(depth, n.depth)
	}
	f.nontrivial = depth >= 2 && len(want) > 0 && len(want) < len(all)
	return nil, f
}

// treesWith returns the JSON texts of all trees with exactly n nodes.
var treeMemo = map[int][]string{}

func treesWith(n int) []string {
	if t, ok := treeMemo[n]; ok {
		return t
	}
	var out []string
	if n == 1 {
		out = []string{`1`, `"x"`, `null`, `[]`, `{}`}
	} else {
		// arrays: every ordered composition of n-1
		var comp func(rem int, parts []string)
		comp = func(rem int, parts []string) {
			if rem == 0 {
				out = append(out, "["+strings.Join(parts, ",")+"]")
				return
			}
			for k := 1; k <= rem; k++ {
				for _, t := range treesWith(k) {
					comp(rem-k, append(append([]string{}, parts...), t))
				}
			}
		}
		comp(n-1, nil)
		// objects with one member (key a or b) or two members (a and b)
		for _, t := range treesWith(n - 1) {
			out = append(out, `{"a":`+t+`}`, `{"b":`+t+`}`)
		}
		for k := 1; k < n-1; k++ {
			for _, ta := range treesWith(k) {
				for _, tb := range treesWith(n - 1 - k) {
					out = append(out, `{"a":`+ta+`,"b":`+tb+`}`)
				}
			}
		}
	}
	treeMemo[n] = out
	return out
}

func wildShapes() []WildCase {
	out := []WildCase{{Acc: ".*"}, {Acc: "[*]"}, {Acc: "**", First: 0, Last: -1}, {Acc: "**", First: -1, Last: -1}}
	for a := int64(0); a <= 4; a++ {
		out = append(out, WildCase{Acc: "**", First: a, Last: a}, WildCase{Acc: "**", First: a, Last: -1}, WildCase{Acc: "**", First: -1, Last: a})
		for b := int64(0); b <= 4; b++ {
			if a != b {
				out = append(out, WildCase{Acc: "**", First: a, Last: b})
			}
		}
	}
	return out
}

func TestC15(t *testing.T) {
	ev := newEv(t, "C15")
	ev.replayTier(t)
	record := func(class string, c WildCase, f wildFacts) {
		ev.Eval(c.pathText()+"\x00"+c.Doc, f.nontrivial)
		if f.excludedD19 {
			ev.Excluded("subscript_selects_null_D19")
		}
		if f.open {
			ev.Label("multiset_comparison")
		} else {
			ev.Label("exact_order_comparison")
		}
		ev.Sample(class+":"+c.Acc+c.Tail, map[string]string{"path": c.pathText(), "doc": c.Doc})
	}
	maxNodes := 5
	if thorough() {
		maxNodes = 6
	}
	t.Run("exhaustive", func(t *testing.T) {
		b := ev.enum(t)
		shapes := wildShapes()
		i := 0
		for n := 1; n <= maxNodes; n++ {
			for _, d := range treesWith(n) {
				for _, sh := range shapes {
					for _, strict := range []bool{false, true} {
						for _, tail := range []string{"", ".a", ".*", "[0]", "[last]"} {
							if tail != "" && n == maxNodes && maxNodes > 5 {
								continue
							}
							i++
							if !mine(i) {
								continue
							}
							c := sh
							c.Strict, c.Doc, c.Tail = strict, d, tail
							v, f := checkWildFacts(c)
							record("exhaustive", c, f)
							if !b.Check("c15.wild", c, v) {
								return
							}
						}
					}
				}
			}
		}
		ev.Exhaustive(fmt.Sprintf("all_trees_up_to_%d_nodes_by_bound_shapes_by_mode_by_tail", maxNodes), int64(i))
	})
	t.Run("huge_levels", func(t *testing.T) {
		// the largest levels the syntax admits: they are levels, not "last" - on every word size (D59)
		b := ev.enum(t)
		const big = math.MaxInt32
		i := 0
		for _, lv := range [][2]int64{{big, big}, {0, big}, {1, big}, {big - 1, big}, {big, -1}, {-1, big}, {big - 1, big - 1}, {2, big - 1}, {65536, 65537}} {
			for n := 1; n <= 4; n++ {
				for _, d := range treesWith(n) {
					for _, strict := range []bool{false, true} {
						for _, tail := range []string{"", ".a"} {
							i++
							if !mine(i) {
								continue
							}
							c := WildCase{Acc: "**", First: lv[0], Last: lv[1], Strict: strict, Doc: d, Tail: tail}
							v, f := checkWildFacts(c)
							record("huge_levels", c, f)
							if !b.Check("c15.wild", c, v) {
								return
							}
						}
					}
				}
			}
		}
		ev.Exhaustive("levels_at_the_int32_limit_by_small_trees", int64(i))
	})
	t.Run("deep_chains", func(t *testing.T) {
		// documents nested far deeper than any generated tree: chains of arrays / objects of depth 40..300
		b := ev.enum(t)
		i := 0
		for _, depth := range []int{40, 127, 128, 129, 130, 200, 300} {
			for _, kind := range []string{"arr", "obj", "mixed"} {
				open, close := "", ""
				for d := 0; d < depth; d++ {
					if kind == "arr" || (kind == "mixed" && d%2 == 0) {
						open, close = open+"[", "]"+close
					} else {
						open, close = open+`{"a":`, "}"+close
					}
				}
				doc := open + "7" + close
				D := int64(depth)
				for _, sh := range []WildCase{{Acc: "**", First: 0, Last: -1}, {Acc: "**", First: -1, Last: -1}, {Acc: "**", First: D, Last: D}, {Acc: "**", First: D - 1, Last: -1}, {Acc: "**", First: D + 1, Last: -1}, {Acc: "**", First: 126, Last: 131}, {Acc: "**", First: D / 2, Last: D}} {
					for _, strict := range []bool{false, true} {
						i++
						if !mine(i) {
							continue
						}
						c := sh
						c.Strict, c.Doc = strict, doc
						v, f := checkWildFacts(c)
						ev.Eval(fmt.Sprintf("deep:%s:%d:%s", kind, depth, c.pathText()), true)
						_ = f
						if !b.Check("c15.wild", c, v) {
							return
						}
					}
				}
			}
		}
		ev.Exhaustive("chains_of_depth_40_to_300_by_bound_shapes_by_mode", int64(i))
	})
	ev.rapidProp(t, "random", func(rt *rapid.T) {
		doc := GenDoc(rt, DocCfg{MaxDepth: 5, Keys: []string{"a", "b", "c"}, MaxObj: 2, ScalarPct: 2}, "doc")
		sh := wildShapes()[rapid.IntRange(0, len(wildShapes())-1).Draw(rt, "shape")]
		if rapid.IntRange(0, 4).Draw(rt, "deep") == 0 {
			sh = WildCase{Acc: "**", First: int64(rapid.IntRange(0, 6).Draw(rt, "f")), Last: int64(rapid.IntRange(-1, 6).Draw(rt, "l"))}
		}
		sh.Strict = rapid.Bool().Draw(rt, "strict")
		sh.Doc = doc.Text()
		sh.Tail = rapid.SampledFrom([]string{"", "", ".a", ".*", "[0]", "[last]"}).Draw(rt, "tail")
		sh.UseNumber = rapid.Bool().Draw(rt, "num")
		v, f := checkWildFacts(sh)
		record("random", sh, f)
		ev.Check(rt, "c15.wild", sh, v)
	})
}
