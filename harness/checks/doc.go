// Package checks holds the property-based checks for theory/sqljson.
package checks
