package checks

// C08 — WithSilent suppresses exactly the suppressible errors.

import (
	"encoding/json"
	"fmt"
	"strings"
	"testing"

	"pgregory.net/rapid"
)

// hardSites is the closed list of raise sites that the property (and the
// README's option documentation) declares non-suppressible.
var hardSites = []string{
	"could not find jsonpath variable",         // unknown variable
	"without time zone usage",                  // casts / comparisons that need a time zone
	".datetime(template) is not yet supported", // unsupported datetime template
	"NUMERIC precision",                        // invalid decimal precision
	"NUMERIC scale",                            // invalid decimal scale
	"context canceled", "context deadline exceeded",
}

func isDeclaredHard(err error) bool {
	if err == nil {
		return false
	}
	for _, s := range hardSites {
		if strings.Contains(err.Error(), s) {
			return true
		}
	}
	return false
}

type silentFacts struct {
	verboseErr bool
	d9, d17b   bool
	open       bool
	class      string
}

var c08Ev *Ev

var checkSilent = register("c08.silent", func(c ExecCase) *Violation {
	v, _ := checkSilentFacts(c)
	return v
})

func checkSilentFacts(c ExecCase) (v *Violation, f silentFacts) {
	pr, err := prepare(c)
	if err != nil {
		return nil, f
	}
	ev := c08Ev
	if ev == nil {
		ev = &Ev{Prop: "C08"}
	}
	open := pr.orderOpen()
	f.open = open
	kv2 := pr.chainedKeyvalue() // ids of chained .keyvalue() steps differ from run to run (D30, C16's statement)
	vb := pr.observe(false)
	si := pr.observe(true)
	type pair struct {
		name string
		v, s Outcome
	}
	pairs := []pair{{"Query", vb.Query, si.Query}, {"First", vb.First, si.First}, {"Exists", vb.Exists, si.Exists}, {"Match", vb.Match, si.Match}, {"ExistsOrMatch", vb.EoM, si.EoM}}
	for _, p := range pairs {
		if p.v.Panic != "" || p.s.Panic != "" {
			return nil, f
		}
		if isD9(p.v.Err) || isD9(p.s.Err) {
			if ev.quirk("datetime_vs_nondatetime_invalid") {
				f.d9 = true
				return nil, f
			}
		}
	}
	f.class = vb.Query.Class
	for _, p := range pairs {
		at := fmt.Sprintf("%s(%q, %s)", p.name, c.Path, c.Doc)
		if p.v.Class != EOK {
			f.verboseErr = true
		}
		// (a) WithSilent never lets a suppressible error out
		if p.s.Class == ESupp {
			return violf("%s with WithSilent returned a suppressible error: %v", at, p.s.Err), f
		}
		// (e) only the declared sites may raise non-suppressible errors
		for _, o := range []Outcome{p.v, p.s} {
			if o.Class == EHard && !isDeclaredHard(o.Err) {
				return violf("%s returned a non-suppressible error from a site that is not in the documented list: %v", at, o.Err), f
			}
			if o.Class == ESupp && isDeclaredHard(o.Err) {
				return violf("%s returned a suppressible error from a site documented as non-suppressible: %v", at, o.Err), f
			}
		}
		if open && p.v.Class != EOK {
			// which error comes first depends on the member order of this run
			continue
		}
		if open && hasPredicate(pr.tree.Root) {
			// lax short-circuits (exists, existential comparisons) make even the value of a
			// predicate depend on the member order of the run: the two runs are not comparable
			continue
		}
		switch p.v.Class {
		case EOK:
			// (b) a run that succeeds without WithSilent returns the identical result with it
			same := p.s.Class == EOK && p.s.Bool == p.v.Bool
			if same {
				a, b := RenderSeq(p.v.Items, kv2), RenderSeq(p.s.Items, kv2)
				if open {
					same = sameMultiset(a, b)
					if p.name == "First" {
						same = true // any member may come first
					}
				} else {
					same = sameSeq(a, b) && Render(p.v.Item, kv2) == Render(p.s.Item, kv2)
				}
			}
			if open && (p.name == "Exists" || p.name == "ExistsOrMatch") && vb.Query.Class != EOK {
				// Exists stopped early in one member order; another order may meet an error first
				same = true
			}
			if !same {
				return violf("%s succeeds without WithSilent (%s) but differs with it (%s)", at, p.v, p.s), f
			}
		case ESupp:
			// (c) suppressible failure: the silent run returns no error
			switch p.name {
			case "Query", "First":
				if p.s.Class != EOK {
					return violf("%s fails with a suppressible error (%v) but with WithSilent returns class %s (%v)", at, p.v.Err, p.s.Class, p.s.Err), f
				}
			default:
				// NULL unless the answer was already established
				okNull := p.s.Class == ENull && !p.s.Bool
				established := p.s.Class == EOK
				if p.name == "Exists" || (p.name == "ExistsOrMatch" && !pr.p.IsPredicate()) {
					// the only answer Exists can establish before a failure is "true"
					established = established && p.s.Bool
					if established && len(si.Query.Items) == 0 && si.Query.Class == EOK {
						if d17bClass(pr.tree) && ev.quirk("exists_unary_sign_nonnumeric") {
							f.d17b = true
						} else {
							return violf("%s fails verbosely (%v); with WithSilent it returns true although the silent Query found no item before the failure", at, p.v.Err), f
						}
					}
				}
				if !okNull && !established {
					return violf("%s fails with a suppressible error (%v) but with WithSilent returns %v, class %s (want NULL, or an established answer)", at, p.v.Err, p.s.Bool, p.s.Class), f
				}
			}
		case EHard:
			// (d) non-suppressible errors are returned unchanged
			if p.s.Class != EHard || p.s.Err.Error() != p.v.Err.Error() {
				return violf("%s fails with the non-suppressible error %q but with WithSilent returns class %s (%v)", at, p.v.Err, p.s.Class, p.s.Err), f
			}
		}
	}
	return nil, f
}

// LeakCase: a path A = $.a<chain> and a condition C; evaluating C in a filter
// before A's steps must not change what A reports.
type LeakCase struct {
	Strict bool   `json:"strict,omitempty"`
	Chain  *Node  `json:"chain"` // accessor chain applied after $.a
	Cond   *Node  `json:"cond"`  // predicate over @ (= the wrapper object)
	Doc    string `json:"doc"`   // the value stored under "a"
	Opts   Opts   `json:"opts"`
}

func (c LeakCase) paths() (plain, withPred *Path) {
	a := func() *Node { return &Node{K: KKey, S: "a", Next: c.Chain.Clone()} }
	plain = &Path{Strict: c.Strict, Root: &Node{K: KRoot, Next: a()}}
	unk := func() *Node { return &Node{K: KIsUnknown, A: c.Cond.Clone()} }
	always := &Node{K: KBin, S: "||", A: unk(), B: &Node{K: KUn, S: "!", A: unk()}}
	withPred = &Path{Strict: c.Strict, Root: &Node{K: KRoot, Next: &Node{K: KFilter, A: always, Next: a()}}}
	return
}

var checkLeak = register("c08.leak", func(c LeakCase) *Violation {
	plain, withPred := c.paths()
	doc := `{"a":` + c.Doc + `}`
	c1 := ExecCase{Path: plain.Canon(), Doc: doc, Opts: c.Opts}
	c2 := ExecCase{Path: withPred.Canon(), Doc: doc, Opts: c.Opts}
	p1, err1 := prepare(c1)
	p2, err2 := prepare(c2)
	if err1 != nil || err2 != nil {
		return nil
	}
	open := p1.orderOpen() || p2.orderOpen()
	for _, silent := range []bool{false, true} {
		o1, o2 := p1.observe(silent), p2.observe(silent)
		for _, pr := range []struct {
			name string
			a, b Outcome
		}{{"Query", o1.Query, o2.Query}, {"First", o1.First, o2.First}, {"Exists", o1.Exists, o2.Exists}} {
			if pr.a.Panic != "" || pr.b.Panic != "" || isD9(pr.a.Err) || isD9(pr.b.Err) {
				return nil
			}
			if open {
				// a predicate inside the chain itself (exists / existential comparison over the members)
				// short-circuits on whichever member comes first: the two runs are then not comparable
				if hasPredicate(p1.tree.Root) {
					continue
				}
				if pr.a.Class == EOK && pr.b.Class == EOK && pr.name == "Query" && !silent &&
					!sameMultiset(RenderSeq(pr.a.Items, true), RenderSeq(pr.b.Items, true)) {
					return violf("a condition evaluated in a filter changed the result of the steps after it: %q -> %v but %q -> %v (silent=%v)", c1.Path, RenderSeq(pr.a.Items, true), c2.Path, RenderSeq(pr.b.Items, true), silent)
				}
				continue
			}
			if pr.a.Class != pr.b.Class || pr.a.Bool != pr.b.Bool ||
				!sameSeq(RenderSeq(pr.a.Items, true), RenderSeq(pr.b.Items, true)) || Render(pr.a.Item, true) != Render(pr.b.Item, true) {
				return violf("suppression leaked out of a predicate: %s(%q) = %s but after the always-true filter %s(%q) = %s (silent=%v, doc %s)", pr.name, c1.Path, pr.a, pr.name, c2.Path, pr.b, silent, doc)
			}
		}
	}
	return nil
})

// checkPartial: "where the non-silent run fails with a suppressible error the
// silent run returns ... the items found before the failure". The reference
// model evaluates the path in the documented order and stops at the first
// error, so its items are exactly those found before the failure.
var checkPartial = register("c08.partial", func(c ExecCase) *Violation {
	v, _ := checkPartialFacts(c)
	return v
})

func checkPartialFacts(c ExecCase) (*Violation, silentFacts) {
	var f silentFacts
	pr, err := prepare(c)
	if err != nil {
		return violf("harness: %q does not parse: %v", c.Path, err), f
	}
	ev := c08Ev
	if ev == nil {
		ev = &Ev{Prop: "C08"}
	}
	var quirks []string
	if ev.quirk("exists_unary_sign_nonnumeric") {
		quirks = append(quirks, "D17b")
	}
	var vars map[string]any
	if pr.vars != nil {
		vars = map[string]any(pr.vars)
	}
	mr := RunModel(pr.tree, pr.doc, c.Opts, vars, false, quirks...)
	if (mr.Err != nil && mr.Err.dontCare) || mr.OrderOpen {
		return nil, f
	}
	if mr.SawD9 && ev.quirk("datetime_vs_nondatetime_invalid") {
		f.d9 = true
		return nil, f
	}
	f.d17b = mr.UsedD17b
	vq := RunQuery(pr.ctx, pr.p, pr.doc, pr.opts(false)...)
	sq := RunQuery(pr.ctx, pr.p, pr.doc, pr.opts(true)...)
	sf := RunFirst(pr.ctx, pr.p, pr.doc, pr.opts(true)...)
	if vq.Panic != "" || sq.Panic != "" || sf.Panic != "" {
		return violf("%q on %s panicked: %s%s%s", c.Path, c.Doc, vq.Panic, sq.Panic, sf.Panic), f
	}
	f.class = vq.Class
	f.verboseErr = vq.Class != EOK
	want := mRenderSeq(mr.Items)
	at := fmt.Sprintf("Query(%q, %s)", c.Path, c.Doc)
	switch {
	case mr.Err != nil && mr.Err.hard:
		if vq.Class != EHard || sq.Class != EHard || sf.Class != EHard {
			return violf("%s: a non-suppressible error is prescribed (%s); verbose %s, silent %s, silent First %s", at, mr.Err.msg, vq, sq, sf), f
		}
	case mr.Err != nil:
		if vq.Class != ESupp {
			return violf("%s: a suppressible error is prescribed (%s) after the items %v, the non-silent run returned %s", at, mr.Err.msg, want, vq), f
		}
		if sq.Class != EOK || !sameSeq(want, RenderSeq(sq.Items, true)) {
			return violf("%s fails with a suppressible error (%s); the items found before the failure are %v but with WithSilent it returned %s", at, mr.Err.msg, want, sq), f
		}
	default:
		if vq.Class != EOK || sq.Class != EOK || !sameSeq(want, RenderSeq(sq.Items, true)) || !sameSeq(want, RenderSeq(vq.Items, true)) {
			return violf("%s: the rules give %v without error; verbose %s, silent %s", at, want, vq, sq), f
		}
	}
	if mr.Err == nil || !mr.Err.hard {
		wantFirst := "null"
		if len(want) > 0 {
			wantFirst = want[0]
		}
		if sf.Class != EOK || (len(want) == 0 && sf.Item != nil) || (len(want) > 0 && Render(sf.Item, true) != wantFirst) {
			return violf("First(%q, %s) with WithSilent: the items found before the failure are %v, First returned %s", c.Path, c.Doc, want, sf), f
		}
	}
	return nil, f
}

// partialCases: operand expressions that emit a value and then fail, at every
// position an operand can take; plus multi-subscript accessors whose later
// subscript fails after an earlier one selected elements.
func partialCases() []ExecCase {
	doc := `{"arr":[10,20,30],"i":[1,"x"],"j":[0,"y",2],"idx":[1],"k":[1,2],"one":[1],"o":[{"a":1},{"b":2},{"a":3}]}`
	emitFail := []string{`$.i.integer()`, `$.i.double()`, `$.i[*].abs()`, `-$.i[*]`, `+$.j[*]`, `$.idx[0,3]`, `$.j[*].number()`, `$.i.ceiling()`, `$.i[0 to 1].floor()`, `$.i[*].bigint()`, `$.o[*].a`, `$.idx[0 to 2]`,
		// controls: a single value, several values, no value, immediate failure
		`$.one[0]`, `$.k[*]`, `$.nokey`, `$.i[1].double()`, `$.one.integer()`}
	shapes := []string{"$.arr[%s]", "$.arr[0 to %s]", "$.arr[%s to 2]", "$.arr[0, %s]", "$.arr[%s, 0]", "$.arr[0 to 1, %s, 1]", "%s", "%s.type()", "-(%s)", "(%s + 1)", "(1 - %s)", "$.arr[*] ? (@ > %s)", "$ ? (%s == 1).idx", "%s == 1", "exists(%s)", "$ ? (exists(%s)).idx",
		"$.arr[%s].double()", "$ ? (@.arr[%s] == 20).idx", "$.arr[*] ? (@ == %s * 10)", "(%s == 1) is unknown", "$.arr[%s] ? (@ > 10)", "$.arr[last - %s]", "$.arr[%s, %s]"}
	var out []ExecCase
	for _, sh := range shapes {
		for _, e := range emitFail {
			for _, mode := range []string{"", "strict "} {
				for _, un := range []bool{false, true} {
					out = append(out, ExecCase{Path: mode + strings.ReplaceAll(sh, "%s", e), Doc: doc, Opts: Opts{UseNumber: un}})
				}
			}
		}
	}
	// a later subscript fails after earlier ones selected elements
	for _, p := range []string{"$[0, 5]", "$[0 to 1, 7, 1]", "$[1, $v]", "$[0, 9].a", "$[2, 1, 0, 3]", "$[0 to 9]", "$[1 to 0, 0]", `$[0, "a"]`, "$[0, 1.5, 7]", "$[0, last + 1]", "$[last, $.nokey]", "$[0, 1][0, 5]", "$[*][0, 5]", "$[0, 5] ? (@ > 0)", "$[0, 5].type()", "$[0 to last, 5].size()"} {
		for _, d := range []string{`[10,20,30]`, `[{"a":1},{"a":2},3]`, `[[1,2],[3]]`, `[]`, `7`} {
			for _, mode := range []string{"", "strict "} {
				out = append(out, ExecCase{Path: mode + p, Doc: d, Opts: Opts{HasVars: true, Vars: map[string]string{"v": `"s"`}}})
			}
		}
	}
	return out
}

func hardErrorCases() []ExecCase {
	// every documented non-suppressible raise site at several positions
	hard := []string{`$missing`, `"12:00:00".time_tz()`, `"2015-08-01".timestamp_tz()`, `"2015-08-01 12:00:00+01".timestamp()`, `"2015-08-01".datetime("YYYY")`, `(1).decimal(0)`, `(1).decimal(1,2000)`, `(1).decimal(1001)`, `(1).decimal(1,-1001)`, `("12:00:00".time() < "12:00:00+01".time_tz())`}
	supp := []string{`$h`, `$h.double()`, `$h.number()`, `$h.integer()`, `($h + 1)`, `(-$h)`, `$h.abs()`, `$h.decimal(5,2)`, `$h.bigint()`, `"a".double()`, `(1/0)`, `$.nokey`, `"x".integer()`, `$[9]`, `(-"a")`, `"zz".date()`, `(1).decimal(2147483648)`, `"a".keyvalue()`, `$.size()`}
	var out []ExecCase
	shapes := []string{"%s", "$[*] ? (@ == %s)", "$[*] ? (%s == @)", "exists(%s)", "(%s == 1) is unknown", "!(%s == 1)", "%s == 1 || 1 == 1", "1 == 1 || %s == 1", "1 == 2 && %s == 1", "%s == 1 && 1 == 2", "$[0 to %s]", "$[%s]", "$[9 to %s]", "$[-1 to %s]", "$[0, 9 to %s]", "$[last + 1 to %s]", "-%s", "%s + 1", "$ ? (exists(@ ? (@ == %s)))", "$[*] ? (@ == 1 || @ == %s)", "$[*].a ? (@ > %s)", "$.**{1} ? (@ == %s)"}
	docs := []string{`[1,2]`, `[]`, `{"a":[1]}`, `[{"a":1},2]`, `1`}
	for _, sh := range shapes {
		for _, e := range append(append([]string{}, hard...), supp...) {
			for _, d := range docs {
				for _, strict := range []string{"", "strict "} {
					for _, tz := range []bool{false, true} {
						out = append(out, ExecCase{Path: strict + fmt.Sprintf(sh, e), Doc: d, Opts: Opts{TZ: tz, UseNumber: true, HasVars: true, Vars: map[string]string{"h": "1e400"}}})
					}
				}
			}
		}
	}
	return out
}

func TestC08(t *testing.T) {
	ev := newEv(t, "C08")
	c08Ev = ev
	ev.replayTier(t)
	record := func(class string, c ExecCase, f silentFacts) {
		ev.Eval(c.Key(), f.verboseErr)
		ev.Label("verbose_query:" + f.class)
		if f.d9 {
			ev.KFCase("D9")
		}
		if f.d17b {
			ev.KFCase("D17b")
		}
		if f.open {
			ev.Label("order_open")
		}
		ev.Sample(class+":"+f.class, c)
	}
	t.Run("hard_and_suppressible_sites", func(t *testing.T) {
		b := ev.enum(t)
		cs := append(hardErrorCases(), pgCorpusCases()...)
		for i, c := range cs {
			if !mine(i) {
				continue
			}
			v, f := checkSilentFacts(c)
			record("sites", c, f)
			if !b.Check("c08.silent", c, v) {
				return
			}
		}
		ev.Exhaustive("raise_site_by_position_table", int64(len(cs)))
	})
	t.Run("items_before_the_failure", func(t *testing.T) {
		b := ev.enum(t)
		cs := partialCases()
		for i, c := range cs {
			if !mine(i) {
				continue
			}
			v, f := checkPartialFacts(c)
			record("partial", c, f)
			if !b.Check("c08.partial", c, v) {
				return
			}
		}
		ev.Exhaustive("emit_then_fail_operand_by_position_table", int64(len(cs)))
	})
	pcfg := GenCfg{MaxNodes: 12, HardErrPct: 15, ErrBias: true}
	dcfg := DocCfg{HugeNums: true}
	ev.rapidProp(t, "random", func(rt *rapid.T) {
		c, _ := genExecCase(rt, pcfg, dcfg)
		v, f := checkSilentFacts(c)
		record("random", c, f)
		ev.Check(rt, "c08.silent", c, v)
	})
	ev.rapidProp(t, "leak", func(rt *rapid.T) {
		// no .keyvalue(): its ids depend on the base object, which the filter changes (C16 covers ids)
		g := &pgen{t: rt, c: GenCfg{MaxNodes: 10, HardErrPct: 10, NoKeyvalue: true}.withDefaults()}
		g.budget = 2 + g.n(sz(8), "size")
		chain := g.chain(gctx{}, 1+g.n(3, "chainlen"))
		g.budget = 2 + g.n(sz(6), "csize")
		cond := Normalize(g.pred(gctx{inFilter: true}))
		doc := GenDoc(rt, DocCfg{}, "doc")
		usesVars := chain.Has(func(n *Node) bool { return n.K == KVar }) || cond.Has(func(n *Node) bool { return n.K == KVar })
		c := LeakCase{Strict: g.chance(60, "strict"), Chain: Normalize(chain), Cond: cond, Doc: doc.Text(), Opts: genOpts(rt, DocCfg{}, defVars, usesVars)}
		v := checkLeak(c)
		pl, wp := c.paths()
		key, _ := json.Marshal(c)
		// non-trivial: the condition contains a construct that switches suppression on (any predicate operand) and the plain path has >= 2 steps
		ev.Eval(string(key), pl.Root.Count() >= 3)
		ev.Sample("leak", map[string]string{"plain": pl.Canon(), "with_predicate": wp.Canon(), "doc": c.Doc})
		ev.Check(rt, "c08.leak", c, v)
	})
}
