package checks

// C12 — comparisons and string predicates impose one consistent order.

import (
	"context"
	"encoding/json"
	"fmt"
	"math/big"
	"regexp"
	"strings"
	"testing"

	"github.com/theory/sqljson/path"
	"github.com/theory/sqljson/path/exec"
	"pgregory.net/rapid"
)

// CVal is one comparison operand value.
type CVal struct {
	Kind string `json:"kind"` // null | bool | num | str | arr | obj
	Repr string `json:"repr,omitempty"`
	Text string `json:"text,omitempty"` // number text, string content, "true"/"false", JSON text for arr/obj
}

func (v CVal) goValue() any {
	switch v.Kind {
	case "null":
		return nil
	case "bool":
		return v.Text == "true"
	case "num":
		o := Operand{Repr: v.Repr, Text: v.Text}
		if v.Repr == "lit" { // a literal has no Go value; as a variable use its documented representation
			n, _ := decodeOperand(o)
			if n.isInt {
				return json.Number(fmt.Sprint(n.i))
			}
			return n.f
		}
		return o.goValue()
	case "str":
		return v.Text
	default:
		return MustDecode(v.Text, v.Repr == "num")
	}
}

// order: the reference. ok=false means incomparable (unknown).
func refCompare(a, b CVal) (cmp int, ok bool) {
	if a.Kind != b.Kind || a.Kind == "arr" || a.Kind == "obj" {
		return 0, false
	}
	switch a.Kind {
	case "null":
		return 0, true
	case "bool":
		x, y := a.Text == "true", b.Text == "true"
		switch {
		case x == y:
			return 0, true
		case y:
			return -1, true
		}
		return 1, true
	case "num":
		x, ok1 := decodeOperand(Operand{a.Repr, a.Text})
		y, ok2 := decodeOperand(Operand{b.Repr, b.Text})
		if !ok1 || !ok2 {
			return 0, false
		}
		return x.rat().Cmp(y.rat()), true
	default:
		return strings.Compare(a.Text, b.Text), true
	}
}

// refPredicate gives T/F/U for one pair, "" when the statement leaves it open.
func refPredicate(op string, a, b CVal) string {
	if (a.Kind == "null") != (b.Kind == "null") {
		switch op {
		case "==":
			return "F"
		case "!=":
			return "T"
		}
		return "" // ordering of null vs non-null is left open
	}
	c, ok := refCompare(a, b)
	if !ok {
		return "U"
	}
	var r bool
	switch op {
	case "==":
		r = c == 0
	case "!=":
		r = c != 0
	case "<":
		r = c < 0
	case "<=":
		r = c <= 0
	case ">":
		r = c > 0
	case ">=":
		r = c >= 0
	}
	if r {
		return "T"
	}
	return "F"
}

// CmpCase: left and right operand sequences (one element each for the scalar form).
type CmpCase struct {
	Op     string `json:"op"`
	Strict bool   `json:"strict,omitempty"`
	Left   []CVal `json:"left"`
	Right  []CVal `json:"right"`
	Form   string `json:"form"` // "scalar": $a op $b ; "wrapped": $a op $b with arrays (lax unwraps) ; "star": $a[*] op $b[*]
}

var checkCmp = register("c12.compare", func(c CmpCase) *Violation {
	vars := exec.Vars{}
	mk := func(vs []CVal) any {
		if c.Form == "scalar" {
			return vs[0].goValue()
		}
		arr := make([]any, len(vs))
		for i, v := range vs {
			arr[i] = v.goValue()
		}
		return arr
	}
	vars["a"], vars["b"] = mk(c.Left), mk(c.Right)
	text := "$a " + c.Op + " $b"
	if c.Form == "star" {
		text = "$a[*] " + c.Op + " $b[*]"
	}
	if c.Strict {
		text = "strict " + text
	}
	p, err, pan := ParseSafe(text)
	if err != nil || pan != "" {
		return violf("harness: %q does not parse", text)
	}
	got := RunQuery(context.Background(), p, nil, exec.WithVars(vars))
	if got.Panic != "" {
		return violf("%s with a=%v b=%v panicked: %s", text, c.Left, c.Right, got.Panic)
	}
	// reference: combine the pairwise outcomes
	var left, right []CVal
	left, right = c.Left, c.Right
	if c.Form == "wrapped" && c.Strict {
		// strict mode does not unwrap: array vs array is incomparable
		left = []CVal{{Kind: "arr"}}
		right = []CVal{{Kind: "arr"}}
	}
	if !c.Strict && c.Form != "wrapped" {
		// lax mode unwraps each operand item that is an array by one level
		// (in the wrapped form the listed values already are the unwrapped items)
		left, right = laxExpand(left), laxExpand(right)
	}
	anyT, anyU, open := false, false, false
	for _, a := range left {
		for _, b := range right {
			switch refPredicate(c.Op, a, b) {
			case "T":
				anyT = true
			case "U":
				anyU = true
			case "":
				open = true
			}
		}
	}
	if open {
		return nil
	}
	want := "F"
	if c.Strict {
		switch {
		case anyU:
			want = "U"
		case anyT:
			want = "T"
		}
	} else {
		switch {
		case anyT:
			want = "T"
		case anyU:
			want = "U"
		}
	}
	gotS := "?"
	if got.Class == EOK && len(got.Items) == 1 {
		switch got.Items[0] {
		case true:
			gotS = "T"
		case false:
			gotS = "F"
		case nil:
			gotS = "U"
		}
	}
	if gotS != want {
		return violf("%s with a=%s b=%s: the reference order gives %s but Query returned %s", text, Render(vars["a"], false), Render(vars["b"], false), want, got)
	}
	return nil
})

// laxExpand replaces array values by their elements (one level).
func laxExpand(vs []CVal) []CVal {
	var out []CVal
	for _, v := range vs {
		if v.Kind != "arr" {
			out = append(out, v)
			continue
		}
		var elems []json.RawMessage
		if json.Unmarshal([]byte(v.Text), &elems) != nil {
			out = append(out, v)
			continue
		}
		for _, e := range elems {
			t := strings.TrimSpace(string(e))
			switch {
			case t == "null":
				out = append(out, CVal{Kind: "null"})
			case t == "true" || t == "false":
				out = append(out, CVal{Kind: "bool", Text: t})
			case strings.HasPrefix(t, "["):
				out = append(out, CVal{Kind: "arr", Text: t})
			case strings.HasPrefix(t, "{"):
				out = append(out, CVal{Kind: "obj", Text: t})
			case strings.HasPrefix(t, `"`):
				var s string
				_ = json.Unmarshal(e, &s)
				out = append(out, CVal{Kind: "str", Text: s})
			default:
				r := "f64"
				if v.Repr == "num" {
					r = "num"
				}
				out = append(out, CVal{Kind: "num", Repr: r, Text: t})
			}
		}
	}
	return out
}

func cmpCorpus() []CVal {
	out := []CVal{{Kind: "null"}, {Kind: "bool", Text: "true"}, {Kind: "bool", Text: "false"},
		{Kind: "arr", Text: "[]"}, {Kind: "arr", Text: "[1]"}, {Kind: "arr", Text: "[[1]]"}, {Kind: "arr", Text: `[1,"a"]`, Repr: "num"}, {Kind: "obj", Text: "{}"}, {Kind: "obj", Text: `{"a":1}`}}
	for _, s := range []string{"", "a", "ab", "abc", "b", "A", "é", "z", "😀", "￿", "a\u0001", "1", "true"} {
		out = append(out, CVal{Kind: "str", Text: s})
	}
	nums := []string{"0", "1", "-1", "2", "2147483647", "2147483648", "-2147483649", "9223372036854775807", "-9223372036854775808", "9007199254740992", "9007199254740993", "9007199254740991",
		"0.5", "1.5", "-0.5", "1e308", "5e-324", "1e21", "9223372036854775808.0", "1.0", "0.0", "9007199254740992.0", "9007199254740994.0", "0.1", "-1e308"}
	for _, n := range nums {
		for _, r := range []string{"f64", "num"} {
			out = append(out, CVal{Kind: "num", Repr: r, Text: n})
		}
	}
	out = append(out, CVal{Kind: "num", Repr: "num", Text: "1e0"}, CVal{Kind: "num", Repr: "num", Text: "10E-1"}, CVal{Kind: "num", Repr: "num", Text: "-0"}, CVal{Kind: "num", Repr: "num", Text: "-0.0"},
		// json.Numbers beyond float64: comparable with nothing (unknown), never an error, never true or false
		CVal{Kind: "num", Repr: "num", Text: "1e400"}, CVal{Kind: "num", Repr: "num", Text: "-1e400"}, CVal{Kind: "num", Repr: "num", Text: "1" + strings.Repeat("0", 320)}, CVal{Kind: "num", Repr: "num", Text: "1e-400"})
	return out
}

// StrPredCase: starts with / like_regex.
type StrPredCase struct {
	Kind    string `json:"kind"` // starts | regex
	Subject CVal   `json:"subject"`
	Arg     string `json:"arg"` // prefix or pattern
	Flags   string `json:"flags,omitempty"`
	AsVar   bool   `json:"as_var,omitempty"`
	Strict  bool   `json:"strict,omitempty"`
}

var checkStrPred = register("c12.strpred", func(c StrPredCase) *Violation {
	vars := exec.Vars{"a": c.Subject.goValue(), "p": c.Arg}
	var text string
	if c.Kind == "starts_arr" {
		// $p is bound to the array whose JSON text is Arg: never a string, so the predicate is unknown
		vars["p"] = MustDecode(c.Arg, false)
		text = "$a starts with $p"
		if c.Strict {
			text = "strict " + text
		}
		p, err, pan := ParseSafe(text)
		if err != nil || pan != "" {
			return violf("harness: %q does not parse", text)
		}
		for _, form := range []string{"check", "filter"} {
			q := p
			if form == "filter" {
				ft := "$a ? (@ starts with $p)"
				if c.Strict {
					ft = "strict " + ft
				}
				q, _, _ = ParseSafe(ft)
			}
			got := RunQuery(context.Background(), q, nil, exec.WithVars(vars))
			if got.Panic != "" || got.Class != EOK {
				return violf("%s with p=%s: want unknown, Query returned %s%s", text, c.Arg, got, got.Panic)
			}
			if form == "check" && (len(got.Items) != 1 || got.Items[0] != nil) {
				return violf("%s with a=%q p=%s: the right operand is an array, not a string: want null, Query returned %s", text, c.Subject.Text, c.Arg, got)
			}
			if form == "filter" && len(got.Items) != 0 {
				return violf("$a ? (@ starts with $p) with a=%q p=%s: the right operand is an array, not a string: nothing may be kept, Query returned %s", c.Subject.Text, c.Arg, got)
			}
		}
		return nil
	}
	if c.Kind == "starts" {
		if c.AsVar {
			text = "$a starts with $p"
		} else {
			text = "$a starts with " + QuoteJP(c.Arg)
		}
	} else {
		text = "$a like_regex " + QuoteJP(c.Arg)
		if c.Flags != "" {
			text += " flag " + QuoteJP(c.Flags)
		}
	}
	if c.Strict {
		text = "strict " + text
	}
	p, err, pan := ParseSafe(text)
	if pan != "" {
		return violf("%q panicked in Parse: %s", text, pan)
	}
	if err != nil {
		return nil // pattern rejected at parse time: C04's business
	}
	got := RunQuery(context.Background(), p, nil, exec.WithVars(vars))
	if got.Panic != "" {
		return violf("%s panicked: %s", text, got.Panic)
	}
	one := func(subject CVal) string {
		if subject.Kind != "str" {
			return "U"
		}
		var m bool
		if c.Kind == "starts" {
			m = strings.HasPrefix(subject.Text, c.Arg)
		} else {
			// the documented translation: i, s, m as in Go; q = literal substring
			q := strings.Contains(c.Flags, "q")
			i := strings.Contains(c.Flags, "i")
			if q {
				if i {
					m = regexp.MustCompile("(?i)" + regexp.QuoteMeta(c.Arg)).MatchString(subject.Text)
				} else {
					m = strings.Contains(subject.Text, c.Arg)
				}
			} else {
				m = regexp.MustCompile(goRegexSource(c.Arg, c.Flags)).MatchString(subject.Text)
			}
		}
		if m {
			return "T"
		}
		return "F"
	}
	items := []CVal{c.Subject}
	if !c.Strict {
		items = laxExpand(items) // the left operand is unwrapped in lax mode
	}
	anyT, anyU := false, false
	for _, it := range items {
		switch one(it) {
		case "T":
			anyT = true
		case "U":
			anyU = true
		}
	}
	want := "F"
	if c.Strict {
		if anyU {
			want = "U"
		} else if anyT {
			want = "T"
		}
	} else {
		if anyT {
			want = "T"
		} else if anyU {
			want = "U"
		}
	}
	gotS := "?"
	if got.Class == EOK && len(got.Items) == 1 {
		switch got.Items[0] {
		case true:
			gotS = "T"
		case false:
			gotS = "F"
		case nil:
			gotS = "U"
		}
	}
	if gotS != want {
		return violf("%s with a=%s: want %s, Query returned %s", text, Render(vars["a"], false), want, got)
	}
	return nil
})

// RegexPairCase: two like_regex predicates over the same subject - in one path (joined by && / || or as two
// consecutive filters), and in two paths parsed one after the other in the same process.
type RegexPairCase struct {
	Subject string `json:"subject"`
	P1      string `json:"p1"`
	F1      string `json:"f1,omitempty"`
	P2      string `json:"p2"`
	F2      string `json:"f2,omitempty"`
}

// goRegexMatch: the documented translation (i, s, m as in Go; q = literal substring).
func goRegexMatch(pat, flags, subject string) bool {
	if strings.Contains(flags, "q") {
		if strings.Contains(flags, "i") {
			return regexp.MustCompile("(?i)" + regexp.QuoteMeta(pat)).MatchString(subject)
		}
		return strings.Contains(subject, pat)
	}
	return regexp.MustCompile(goRegexSource(pat, flags)).MatchString(subject)
}

var checkRegexPair = register("c12.regexpair", func(c RegexPairCase) *Violation {
	pred := func(pat, fl string) string {
		t := "@ like_regex " + QuoteJP(pat)
		if fl != "" {
			t += " flag " + QuoteJP(fl)
		}
		return t
	}
	a1, a2 := pred(c.P1, c.F1), pred(c.P2, c.F2)
	single := func(a string) string { return "$a ? (" + a + ")" }
	p1, err1, pan1 := ParseSafe(single(a1))
	p2, err2, pan2 := ParseSafe(single(a2))
	if pan1 != "" || pan2 != "" {
		return violf("Parse panicked: %s%s", pan1, pan2)
	}
	if err1 != nil || err2 != nil {
		return nil // a pattern rejected at parse time: C04's business
	}
	w1, w2 := goRegexMatch(c.P1, c.F1, c.Subject), goRegexMatch(c.P2, c.F2, c.Subject)
	vars := exec.Vars{"a": c.Subject}
	kept := func(p *path.Path) (bool, *Violation) {
		got := RunQuery(context.Background(), p, nil, exec.WithVars(vars))
		if got.Panic != "" || got.Class != EOK || len(got.Items) > 1 {
			return false, violf("%s with a=%q: Query returned %s%s", p.String(), c.Subject, got, got.Panic)
		}
		return len(got.Items) == 1, nil
	}
	// each path alone, the first one again after the second was parsed and run, and freshly parsed copies in the other order
	q2, _, _ := ParseSafe(single(a2))
	q1, _, _ := ParseSafe(single(a1))
	for _, st := range []struct {
		p    *path.Path
		want bool
		what string
	}{{p1, w1, "first"}, {p2, w2, "second"}, {p1, w1, "first, again after the second"}, {q2, w2, "second, parsed again"}, {q1, w1, "first, parsed again after the second"}, {p2, w2, "second, again"}} {
		g, v := kept(st.p)
		if v != nil {
			return v
		}
		if g != st.want {
			return violf("%s with a=%q (%s path of the pair %q / %q): like_regex must be %v as Go's regexp matches under the translated flags, the filter kept the item: %v", st.p.String(), c.Subject, st.what, a1, a2, st.want, g)
		}
	}
	// both in one path
	for _, f := range []struct {
		text string
		want bool
	}{
		{"$a ? ((" + a1 + ") && (" + a2 + "))", w1 && w2},
		{"$a ? ((" + a2 + ") && (" + a1 + "))", w1 && w2},
		{"$a ? ((" + a1 + ") || (" + a2 + "))", w1 || w2},
		{"$a ? ((" + a2 + ") || (" + a1 + "))", w1 || w2},
		{"$a ? (" + a1 + ") ? (" + a2 + ")", w1 && w2},
		{"$a ? (" + a2 + ") ? (" + a1 + ")", w1 && w2},
		{"$a ? (!(" + a1 + ") && (" + a2 + "))", !w1 && w2},
		{"$a ? ((" + a1 + ") && !(" + a2 + "))", w1 && !w2},
		{"strict $a ? (exists(@ ? (" + a1 + ")) || (" + a2 + "))", w1 || w2},
	} {
		p, err, pan := ParseSafe(f.text)
		if err != nil || pan != "" {
			return violf("harness: %q does not parse: %v%s", f.text, err, pan)
		}
		g, v := kept(p)
		if v != nil {
			return v
		}
		if g != f.want {
			return violf("%s with a=%q: alone the predicates are %v and %v (Go's regexp under the translated flags), so the item must be kept: %v, but it was kept: %v", f.text, c.Subject, w1, w2, f.want, g)
		}
	}
	return nil
})

func TestC12(t *testing.T) {
	ev := newEv(t, "C12")
	ev.replayTier(t)
	corpus := cmpCorpus()
	nontrivPair := func(a, b CVal) bool {
		return a.Kind != b.Kind || a.Repr != b.Repr || a.Kind == "num" || a.Kind == "arr" || a.Kind == "obj"
	}
	t.Run("pairs", func(t *testing.T) {
		b := ev.enum(t)
		i := 0
		for _, x := range corpus {
			for _, y := range corpus {
				for _, op := range cmpOps {
					for _, strict := range []bool{false, true} {
						i++
						if !mine(i) {
							continue
						}
						c := CmpCase{Op: op, Strict: strict, Left: []CVal{x}, Right: []CVal{y}, Form: "scalar"}
						key, _ := json.Marshal(c)
						ev.Eval(string(key), nontrivPair(x, y))
						ev.Sample("pair:"+x.Kind+"/"+y.Kind, c)
						if !b.Check("c12.compare", c, checkCmp(c)) {
							return
						}
					}
				}
			}
		}
		ev.Exhaustive("ordered_value_pairs_by_operator_by_mode", int64(i))
	})
	t.Run("triples", func(t *testing.T) {
		// transitivity over the numeric corpus, through the implementation's own answers
		b := ev.enum(t)
		var nums []CVal
		for _, v := range corpus {
			if v.Kind == "num" {
				nums = append(nums, v)
			}
		}
		ask := func(op string, x, y CVal) bool {
			p, _, _ := ParseSafe("$a " + op + " $b")
			o := RunQuery(context.Background(), p, nil, exec.WithVars(exec.Vars{"a": x.goValue(), "b": y.goValue()}))
			return o.Class == EOK && len(o.Items) == 1 && o.Items[0] == true
		}
		le := map[[2]int]bool{}
		for i, x := range nums {
			for j, y := range nums {
				le[[2]int{i, j}] = ask("<=", x, y)
			}
		}
		n := 0
		for i := range nums {
			if !mine(i) {
				continue
			}
			for j := range nums {
				for k := range nums {
					n++
					if le[[2]int{i, j}] && le[[2]int{j, k}] && !le[[2]int{i, k}] {
						c := map[string]any{"a": nums[i], "b": nums[j], "c": nums[k]}
						ev.Eval(fmt.Sprint("triple", i, j, k), true)
						if !b.Check("c12.compare", CmpCase{Op: "<=", Left: []CVal{nums[i]}, Right: []CVal{nums[k]}, Form: "scalar"}, violf("order is not transitive: a <= b and b <= c but not a <= c for %v", c)) {
							return
						}
					}
				}
			}
		}
		ev.mu.Lock()
		ev.evaluations += int64(n)
		ev.mu.Unlock()
		ev.Exhaustive("numeric_triples_transitivity", int64(len(nums)*len(nums)*len(nums)))
	})
	// the last rows: characters whose simple case folding is not ToLower/ToUpper (final sigma, long s,
	// Kelvin sign, dotted/dotless i, titlecase digraph) - Go's (?i) folds by orbit
	patterns := []string{"a", "^a", "b$", "a.c", "^a.*c$", "A", "[ab]+", "a|x", ".", "^$", "a\\.c", "a+", "\\d", "(a)(b)", "^b", "a.b", "a$", "^A", "é", "(", "a.c$", "^",
		"σ", "Σ", "ς", "s", "ſ", "k", "\u212a", "i", "İ", "ı", "ǆ", "ǅ", "É", "ß", "SS", "σας", "µ", "μ",
		// text that means something to the regexp syntax when it is not quoted properly (the q flag makes it literal)
		"C:\\Users\\Eve", "\\E", "a\\Eb", "\\Qa", "\\Qa\\E", "a\\", "[", "a|b*", "^$", "(?i)a"}
	subjects := []string{"", "a", "abc", "ABC", "a\nc", "a\nb", "b\na", "a.c", "xay", "Abc\nabc", "é", "(", "a(b", "aaa", "1",
		"σ", "Σ", "ς", "S", "ſ", "K", "\u212a", "I", "İ", "ı", "Ǆ", "ǅ", "É", "ß", "ss", "ΣΑΣ", "µ", "Μ",
		"C:\\Users\\Eve", "x\\Ey", "a\\Eb", "\\Qa", "a\\", "[", "a|b*"}
	flagSets := []string{"", "i", "s", "m", "q", "is", "im", "sm", "ism", "iq", "qs", "qm", "iqsm", "ii"}
	t.Run("string_predicates", func(t *testing.T) {
		b := ev.enum(t)
		i := 0
		run := func(c StrPredCase) bool {
			i++
			if !mine(i) {
				return true
			}
			key, _ := json.Marshal(c)
			ev.Eval(string(key), true)
			ev.Sample("strpred:"+c.Kind, c)
			return b.Check("c12.strpred", c, checkStrPred(c))
		}
		for _, s := range subjects {
			for _, pre := range append([]string{}, subjects...) {
				for _, asVar := range []bool{false, true} {
					if !run(StrPredCase{Kind: "starts", Subject: CVal{Kind: "str", Text: s}, Arg: pre, AsVar: asVar, Strict: i%2 == 0}) {
						return
					}
				}
			}
			for _, pat := range patterns {
				for _, fl := range flagSets {
					if !run(StrPredCase{Kind: "regex", Subject: CVal{Kind: "str", Text: s}, Arg: pat, Flags: fl, Strict: i%2 == 0}) {
						return
					}
				}
			}
		}
		// the right operand of starts with is not unwrapped: a variable bound to an array is not a string
		for _, sub := range []string{"abc", "a", ""} {
			for _, arr := range []string{`["a"]`, `["abc","x"]`, `[]`, `[["a"]]`, `[""]`} {
				for _, strict := range []bool{false, true} {
					if !run(StrPredCase{Kind: "starts_arr", Subject: CVal{Kind: "str", Text: sub}, Arg: arr, AsVar: true, Strict: strict}) {
						return
					}
				}
			}
		}
		for _, v := range corpus {
			if v.Kind == "str" {
				continue
			}
			for _, k := range []string{"starts", "regex"} {
				if !run(StrPredCase{Kind: k, Subject: v, Arg: "a"}) {
					return
				}
			}
		}
		ev.Exhaustive("string_predicate_table", int64(i))
	})
	t.Run("regex_pairs", func(t *testing.T) {
		// the same pattern text under two flag sets, and patterns that differ only in the case of a letter or of an
		// escape class, in one path and in two paths of one process (whatever is remembered about a compiled
		// pattern must be keyed by everything that decides what it matches)
		b := ev.enum(t)
		pats := []string{"a.c", "A.C", "a\\.c", "\\d", "\\D", "\\w", "\\W", "\\s", "\\S", "\\bab", "\\Bab", "^a", "^A", "a$", "a|b*", "[", "(", "\\pL", "\\PL", "[a-c]", "[A-C]", "[^a-c]", "x.*y", "^b", "a.b"}
		subs := []string{"abc", "a.c", "ABC", "A.C", "a\nc", "xab", "ab", "1", " ", "b\na", "[", "(", "a|b*", "x\ny", "_"}
		fls := []string{"", "i", "q", "iq", "s", "m", "qs", "is"}
		i := 0
		for pi, p1 := range pats {
			for pj, p2 := range pats {
				samePair := pi == pj || strings.EqualFold(p1, p2)
				for _, f1 := range fls {
					for _, f2 := range fls {
						if !samePair && !(f1 == f2 && (pi+pj)%5 == 0) {
							continue
						}
						if pi == pj && f1 == f2 {
							continue
						}
						for _, sub := range subs {
							i++
							if !mine(i) {
								continue
							}
							c := RegexPairCase{Subject: sub, P1: p1, F1: f1, P2: p2, F2: f2}
							key, _ := json.Marshal(c)
							ev.Eval(string(key), true)
							ev.Sample("regexpair", c)
							if !b.Check("c12.regexpair", c, checkRegexPair(c)) {
								return
							}
						}
					}
				}
			}
		}
		ev.Exhaustive("regex_pairs_same_text_or_case_variants_by_flag_sets_by_subjects", int64(i))
	})
	t.Run("many_distinct_patterns", func(t *testing.T) {
		// like_regex stays right however many different patterns this process has evaluated before
		// (anything remembered between calls - a cache of compiled patterns, say - must not go stale)
		b := ev.enum(t)
		n := 6000
		if thorough() {
			n = 40000
		}
		for pass := 0; pass < 2; pass++ {
			for i := 0; i < n; i++ {
				if !mine(i) && pass == 0 {
					// every shard evaluates all patterns in the second pass, a quarter of them in the first
					continue
				}
				c := StrPredCase{Kind: "regex", Subject: CVal{Kind: "str", Text: fmt.Sprintf("k%dz", i)}, Arg: fmt.Sprintf("^k%dz$", i), Flags: []string{"", "i", "q"}[i%3]}
				if c.Flags == "q" {
					c.Arg = fmt.Sprintf("k%dz", i)
				}
				if i%5 == 0 {
					c.Subject.Text = fmt.Sprintf("k%dz", i+1) // a near miss: false
				}
				if pass == 0 {
					ev.Eval(fmt.Sprintf("many:%d", i), true)
				}
				if v := checkStrPred(c); v != nil {
					b.Check("c12.strpred", c, v)
					return
				}
			}
		}
		ev.Exhaustive("distinct_patterns_evaluated_twice", int64(n))
	})
	ev.rapidProp(t, "sequences", func(rt *rapid.T) {
		pick := func(l string) CVal { return corpus[rapid.IntRange(0, len(corpus)-1).Draw(rt, l)] }
		var same []CVal // bias: operands of the same kind so that true/false (not only unknown) occur
		kind := rapid.SampledFrom([]string{"num", "str", "bool", "mixed", "mixed"}).Draw(rt, "kind")
		for _, v := range corpus {
			if v.Kind == kind {
				same = append(same, v)
			}
		}
		draw := func(l string) CVal {
			if len(same) > 0 && rapid.IntRange(0, 9).Draw(rt, l+"same") < 8 {
				return same[rapid.IntRange(0, len(same)-1).Draw(rt, l+"i")]
			}
			return pick(l)
		}
		nl, nr := rapid.IntRange(0, 3).Draw(rt, "nl"), rapid.IntRange(0, 3).Draw(rt, "nr")
		c := CmpCase{Op: rapid.SampledFrom(cmpOps).Draw(rt, "op"), Strict: rapid.Bool().Draw(rt, "strict"), Form: rapid.SampledFrom([]string{"star", "star", "wrapped"}).Draw(rt, "form")}
		for i := 0; i < nl; i++ {
			c.Left = append(c.Left, draw(fmt.Sprintf("l%d", i)))
		}
		for i := 0; i < nr; i++ {
			c.Right = append(c.Right, draw(fmt.Sprintf("r%d", i)))
		}
		key, _ := json.Marshal(c)
		ev.Eval(string(key), nl+nr >= 3)
		ev.Sample("sequence:"+c.Form, c)
		ev.Check(rt, "c12.compare", c, checkCmp(c))
	})
	ev.rapidProp(t, "random_numbers", func(rt *rapid.T) {
		num := func(l string) CVal {
			repr := rapid.SampledFrom([]string{"f64", "num"}).Draw(rt, l+"repr")
			var text string
			switch rapid.IntRange(0, 3).Draw(rt, l+"k") {
			case 0:
				text = fmt.Sprint(rapid.Int64().Draw(rt, l+"i"))
			case 1:
				// around 2^53..2^63 where int64 and float64 disagree
				text = fmt.Sprint(int64(1)<<uint(rapid.IntRange(52, 62).Draw(rt, l+"sh")) + int64(rapid.IntRange(-3, 3).Draw(rt, l+"d")))
			case 2:
				f := rapid.Float64().Draw(rt, l+"f")
				text = fmt.Sprint(f)
				if strings.ContainsAny(text, "IN") {
					text = "0.5"
				}
			default:
				text = fmt.Sprint(rapid.IntRange(-5, 5).Draw(rt, l+"s"))
			}
			return CVal{Kind: "num", Repr: repr, Text: text}
		}
		x, y := num("x"), num("y")
		for _, op := range cmpOps {
			c := CmpCase{Op: op, Left: []CVal{x}, Right: []CVal{y}, Form: "scalar"}
			key, _ := json.Marshal(c)
			ev.Eval(string(key), true)
			ev.Check(rt, "c12.compare", c, checkCmp(c))
		}
		ev.Sample("random_numbers", map[string]any{"x": x, "y": y})
	})
	_ = big.NewInt
}
