package checks

// C18 — datetime values survive printing, JSON encoding and hostile input.

import (
	"context"
	"encoding/json"
	"fmt"
	"regexp"
	"strings"
	"testing"
	"time"

	"github.com/theory/sqljson/path/types"
	"pgregory.net/rapid"
)

// DTValueCase: a datetime value described by its construction.
type DTValueCase struct {
	Kind   string `json:"kind"` // date | time | timetz | timestamp | timestamptz
	Year   int    `json:"year"`
	Month  int    `json:"month"`
	Day    int    `json:"day"`
	Hour   int    `json:"hour"`
	Min    int    `json:"min"`
	Sec    int    `json:"sec"`
	Nanos  int    `json:"nanos"`
	Offset int    `json:"offset_s"` // whole minutes, in seconds
	Zone   string `json:"zone,omitempty"`
}

func (c DTValueCase) ctx() context.Context { return Opts{Zone: c.Zone}.Ctx() }

func (c DTValueCase) build() types.DateTime {
	loc := time.FixedZone("", c.Offset)
	t := time.Date(c.Year, time.Month(c.Month), c.Day, c.Hour, c.Min, c.Sec, c.Nanos, loc)
	switch c.Kind {
	case "date":
		return types.NewDate(t)
	case "time":
		return types.NewTime(t)
	case "timetz":
		return types.NewTimeTZ(t)
	case "timestamp":
		return types.NewTimestamp(t)
	}
	return types.NewTimestampTZ(c.ctx(), t)
}

var isoShape = map[string]*regexp.Regexp{
	"date":        regexp.MustCompile(`^\d{4}-\d{2}-\d{2}$`),
	"time":        regexp.MustCompile(`^\d{2}:\d{2}:\d{2}(\.\d{1,9})?$`),
	"timetz":      regexp.MustCompile(`^\d{2}:\d{2}:\d{2}(\.\d{1,9})?[+-]\d{2}:\d{2}$`),
	"timestamp":   regexp.MustCompile(`^\d{4}-\d{2}-\d{2}T\d{2}:\d{2}:\d{2}(\.\d{1,9})?$`),
	"timestamptz": regexp.MustCompile(`^\d{4}-\d{2}-\d{2}T\d{2}:\d{2}:\d{2}(\.\d{1,9})?[+-]\d{2}:\d{2}$`),
}

func kindOf(v types.DateTime) string {
	switch v.(type) {
	case *types.Date:
		return "date"
	case *types.Time:
		return "time"
	case *types.TimeTZ:
		return "timetz"
	case *types.Timestamp:
		return "timestamp"
	case *types.TimestampTZ:
		return "timestamptz"
	}
	return fmt.Sprintf("%T", v)
}

func sameDT(a, b types.DateTime) string {
	if kindOf(a) != kindOf(b) {
		return fmt.Sprintf("type %s vs %s", kindOf(a), kindOf(b))
	}
	ta, tb := a.GoTime(), b.GoTime()
	if !ta.Equal(tb) {
		return fmt.Sprintf("instant %s vs %s", ta.Format(time.RFC3339Nano), tb.Format(time.RFC3339Nano))
	}
	_, oa := ta.Zone()
	_, ob := tb.Zone()
	if oa != ob {
		return fmt.Sprintf("offset %d vs %d", oa, ob)
	}
	if a.String() != b.String() {
		return fmt.Sprintf("text %q vs %q", a.String(), b.String())
	}
	return ""
}

func newOf(kind string) (types.DateTime, json.Unmarshaler) {
	switch kind {
	case "date":
		v := new(types.Date)
		return v, v
	case "time":
		v := new(types.Time)
		return v, v
	case "timetz":
		v := new(types.TimeTZ)
		return v, v
	case "timestamp":
		v := new(types.Timestamp)
		return v, v
	}
	v := new(types.TimestampTZ)
	return v, v
}

var checkDTValue = register("c18.value", func(c DTValueCase) (v *Violation) {
	defer func() {
		if r := recover(); r != nil {
			v = violf("panic for %+v: %v", c, r)
		}
	}()
	val := c.build()
	s := val.String()
	if !isoShape[c.Kind].MatchString(s) {
		return violf("%s value %+v prints as %q, which is not the ISO-8601 shape of its type", c.Kind, c, s)
	}
	// ParseTime(String(v)) returns an equal value of the same type
	back, ok := types.ParseTime(c.ctx(), s, -1)
	if !ok {
		return violf("ParseTime cannot read back %q printed by a %s value", s, c.Kind)
	}
	if d := sameDT(val, back); d != "" {
		return violf("ParseTime(String(v)) differs for %s %q: %s", c.Kind, s, d)
	}
	// json.Unmarshal(json.Marshal(v)) returns an equal value
	js, err := json.Marshal(val)
	if err != nil {
		return violf("json.Marshal(%s %q): %v", c.Kind, s, err)
	}
	fresh, _ := newOf(c.Kind)
	if err := json.Unmarshal(js, fresh); err != nil {
		return violf("json.Unmarshal(%s) of a marshalled %s value failed: %v", js, c.Kind, err)
	}
	if d := sameDT(val, fresh); d != "" {
		return violf("json round trip of %s %q (%s) differs: %s", c.Kind, s, js, d)
	}
	// .string() inside a path prints the same text
	meth := map[string]string{"date": "date", "time": "time", "timetz": "time_tz", "timestamp": "timestamp", "timestamptz": "timestamp_tz"}[c.Kind]
	for _, m := range []string{"datetime", meth} {
		p, perr, _ := ParseSafe("$." + m + "().string()")
		if perr != nil {
			continue
		}
		o := RunQuery(c.ctx(), p, s)
		if o.Class != EOK || len(o.Items) != 1 || o.Items[0] != s {
			return violf("Query($.%s().string()) on %q returned %s, want the same text", m, s, o)
		}
		pt, _, _ := ParseSafe("$." + m + "().type()")
		ot := RunQuery(c.ctx(), pt, s)
		if ot.Class != EOK || len(ot.Items) != 1 || ot.Items[0] != dtTypeName[c.Kind] {
			return violf("Query($.%s().type()) on %q returned %s, want %q", m, s, ot, dtTypeName[c.Kind])
		}
	}
	// conversions commute with the context zone (for local times that exist in it)
	loc := zoneOf(c.Zone)
	if loc == nil {
		loc = time.UTC
	}
	exists := func(t time.Time) bool {
		l := time.Date(t.Year(), t.Month(), t.Day(), t.Hour(), t.Minute(), t.Second(), t.Nanosecond(), loc)
		return l.Hour() == t.Hour() && l.Minute() == t.Minute() && l.Day() == t.Day()
	}
	switch x := val.(type) {
	case *types.Date:
		if exists(x.Time) {
			if back := x.ToTimestampTZ(c.ctx()).ToDate(c.ctx()); sameDT(x, back) != "" {
				return violf("date -> timestamptz -> date under zone %q: %s became %s", c.Zone, x, back)
			}
		}
	case *types.Timestamp:
		if exists(x.Time) {
			if back := x.ToTimestampTZ(c.ctx()).ToTimestamp(c.ctx()); sameDT(x, back) != "" {
				return violf("timestamp -> timestamptz -> timestamp under zone %q: %s became %s", c.Zone, x, back)
			}
		}
	}
	return nil
})

// HostileCase: bytes handed to UnmarshalJSON of one type.
type HostileCase struct {
	Kind   string `json:"kind"`
	Data   string `json:"data"`
	Direct bool   `json:"direct,omitempty"` // call the method directly instead of through json.Unmarshal
}

var checkHostile = register("c18.hostile", func(c HostileCase) (v *Violation) {
	defer func() {
		if r := recover(); r != nil {
			how := "json.Unmarshal"
			if c.Direct {
				how = "UnmarshalJSON"
			}
			v = violf("%s of %q into a %s panicked: %v", how, c.Data, c.Kind, r)
		}
	}()
	val, um := newOf(c.Kind)
	var err error
	if c.Direct {
		err = um.UnmarshalJSON([]byte(c.Data))
	} else {
		if !json.Valid([]byte(c.Data)) {
			return nil
		}
		err = json.Unmarshal([]byte(c.Data), val)
	}
	// is the input a valid JSON string holding a value of this type?
	var s string
	isString := json.Unmarshal([]byte(c.Data), &s) == nil && strings.HasPrefix(strings.TrimSpace(c.Data), `"`)
	valid := false
	if isString && !strings.Contains(c.Data, `\`) {
		// the JSON form is the canonical one (T separator)
		if parsed, ok := types.ParseTime(context.Background(), s, -1); ok && kindOf(parsed) == c.Kind && isoLike(c.Kind, s) {
			valid = true
		}
	}
	trimmed := strings.TrimSpace(c.Data)
	if err == nil && trimmed != "null" {
		// whatever was accepted is a value of the type: it survives its own JSON encoding
		if mj, ok := val.(json.Marshaler); ok {
			enc, merr := mj.MarshalJSON()
			back, um2 := newOf(c.Kind)
			if merr != nil {
				return violf("UnmarshalJSON(%q) into a %s was accepted, but the value does not marshal: %v", c.Data, c.Kind, merr)
			}
			if uerr := um2.UnmarshalJSON(enc); uerr != nil {
				return violf("UnmarshalJSON(%q) into a %s was accepted as %q, which marshals to %s, which the type does not read back: %v", c.Data, c.Kind, val.String(), enc, uerr)
			}
			if back.String() != val.String() {
				return violf("UnmarshalJSON(%q) into a %s was accepted as %q, which marshals to %s and reads back as %q", c.Data, c.Kind, val.String(), enc, back.String())
			}
		}
	}
	if err == nil && !valid {
		if trimmed == "null" {
			return nil // a no-op on null is the encoding/json convention; an error is fine too
		}
		// accepted although not a plain string of this type: only fine if it really denotes such a value
		if isString {
			if _, perr := time.Parse(time.RFC3339Nano, s); perr == nil && c.Kind == "timestamptz" {
				return nil
			}
			if isoLike(c.Kind, s) {
				return nil
			}
			// leniencies of Go's time layouts (one-digit fields, a comma before the fraction, ...):
			// a string made only of datetime characters that Go reads as this layout does denote
			// a value of the type; what must never be accepted is a non-string or text with other characters
			if dtCharsOnly.MatchString(s) {
				return nil
			}
		}
		return violf("UnmarshalJSON(%q) into a %s returned no error although the input is not a string holding a %s (value now %q)", c.Data, c.Kind, c.Kind, val.String())
	}
	if err != nil && valid && c.Data == trimmed {
		return violf("UnmarshalJSON(%q) into a %s failed although it is a valid %s string: %v", c.Data, c.Kind, c.Kind, err)
	}
	return nil
})

// isoLike: additional zone spellings the types document for JSON input (hh, hh:mm, hh:mm:ss offsets; 9 fractional digits).
func isoLike(kind, s string) bool {
	frac := `(\.\d+)?` // more than nine digits are accepted and truncated
	zone := `(Z|[+-]\d{2}(:\d{2}(:\d{2})?)?)`
	// Go's time layouts tolerate one-digit fields; such strings still denote a value of the type
	d2 := `\d{1,2}`
	date := `\d{4}-` + d2 + `-` + d2
	clock := d2 + `:` + d2 + `:` + d2
	var re string
	switch kind {
	case "date":
		re = `^` + date + `$`
	case "time":
		re = `^` + clock + frac + `$`
	case "timetz":
		re = `^` + clock + frac + zone + `$`
	case "timestamp":
		re = `^` + date + `T` + clock + frac + `$`
	default:
		re = `^` + date + `T` + clock + frac + zone + `$`
	}
	return regexp.MustCompile(re).MatchString(s)
}

var dtCharsOnly = regexp.MustCompile(`^[0-9][0-9:.,+\-TZ]*[0-9Z]$`)

var dtKinds = []string{"date", "time", "timetz", "timestamp", "timestamptz"}

func hostileInputs() []string {
	out := []string{``, `"`, `""`, `" "`, `null`, `true`, `false`, `0`, `1`, `-1`, `12`, `1.5`, `1e5`, `[]`, `{}`, `[1]`, `{"a":1}`, `["2015-08-01"]`, ` `, `x`, `nul`, `"a`, `a"`, `'x'`,
		`"2015-08-01"`, `"12:34:56"`, `"12:34:56+01"`, `"12:34:56+01:00"`, `"12:34:56+01:00:00"`, `"12:34:56Z"`, `"2015-08-01T12:34:56"`, `"2015-08-01T12:34:56Z"`, `"2015-08-01T12:34:56+05:30"`, `"2015-08-01T12:34:56-05"`, `"2015-08-01T12:34:56+05:30:15"`,
		`"2015-08-01 12:34:56"`, `"2015-08-01T12:34"`, `"12:34"`, `"12"`, `"+"`, `"-"`, `"+1"`, `"Z"`, `"12:00"`, `"1:2:3"`, `"2015-8-1"`, `"24:00:00"`, `"2015-13-01"`, `"2015-02-30"`, `"12:34:56.1234567891"`, `"12:34:56."`, `"12:34:56+"`, `"12:34:56+1"`, `"12:34:56+123"`,
		` "2015-08-01"`, `"2015-08-01" `, "\"2015-08-01\"\n", `"2015-08-01""`, `""2015-08-01"`, "\x00", "\xff\xfe", `"2015-08-01"`, `"20150801"`, `"0000-00-00"`, `"9999-12-31T23:59:59.999999999+14:00"`, `"0001-01-01T00:00:00-12:00"`}
	// zone displacements at and beyond what a time zone can have (Go's layouts let 24 hours and 60 minutes through)
	out = append(out, `"12:34:56+24:60"`, `"12:34:56+05:60"`, `"12:34:56-24"`, `"12:34:56+16:00"`, `"12:34:56+23:59:60"`, `"12:34:56+15:59"`, `"12:34:56-15:59:59"`, `"12:34:56+15"`, `"12:34:56+16"`,
		`"2015-08-01T12:34:56-24:60"`, `"2015-08-01T12:34:56+05:60"`, `"2015-08-01T12:34:56+15:59"`, `"2015-08-01T12:34:56-16:00"`, `"2015-08-01T12:34:56+24"`, `"2015-08-01T12:34:56+00:00:60"`,
		// more offset fields than hh:mm:ss
		`"12:34:56+01:00:00:00"`, `"2015-08-01T12:34:56+05:30:15:00"`, `"12:34:56-01:02:03:04:05"`)
	// a quote at one end only, around text that would be a valid value: not a JSON string
	for _, v := range []string{"2015-08-01", "12:34:56", "12:34:56+01:00", "2015-08-01T12:34:56", "2015-08-01T12:34:56+05:30"} {
		out = append(out, `x`+v+`"`, `"`+v+`x`, v+`"`, `"`+v, `1`+v+`"`, `"`+v+`1`, `'`+v+`"`, `"`+v+`'`, v)
	}
	// strings of every length 0..12 built from the characters the zone probes look at
	for l := 0; l <= 12; l++ {
		for _, ch := range []string{"1", "+", "-", ":", "Z", "a"} {
			out = append(out, `"`+strings.Repeat(ch, l)+`"`)
			if l > 0 {
				out = append(out, `"`+strings.Repeat("1", l-1)+ch+`"`, `"`+ch+strings.Repeat("1", l-1)+`"`)
			}
		}
	}
	return out
}

func TestC18(t *testing.T) {
	ev := newEv(t, "C18")
	ev.replayTier(t)
	t.Run("value_grid", func(t *testing.T) {
		b := ev.enum(t)
		years := []int{1, 2, 1000, 1999, 2000, 2015, 9999}
		days := [][2]int{{1, 1}, {2, 28}, {2, 29}, {12, 31}, {3, 8}, {11, 1}, {8, 1}}
		clocks := [][3]int{{0, 0, 0}, {23, 59, 59}, {12, 34, 56}, {1, 30, 0}, {2, 30, 0}}
		nanos := []int{0, 1, 500000000, 999999999, 123456789, 120000000, 1000}
		offsets := []int{0, 19800, -43200, 50400, -1800, 60, -35100, 57540, -57540}
		zones := []string{"", "UTC", "+05:30", "America/New_York"}
		i := 0
		for _, k := range dtKinds {
			for _, y := range years {
				for _, d := range days {
					if d == [2]int{2, 29} && !(y%4 == 0 && (y%100 != 0 || y%400 == 0)) {
						continue
					}
					for _, cl := range clocks {
						for _, n := range nanos {
							for _, off := range offsets {
								for _, z := range zones {
									i++
									if !mine(i) {
										continue
									}
									c := DTValueCase{Kind: k, Year: y, Month: d[0], Day: d[1], Hour: cl[0], Min: cl[1], Sec: cl[2], Nanos: n, Offset: off, Zone: z}
									key, _ := json.Marshal(c)
									ev.Eval(string(key), n != 0 || off != 0 || y == 1 || y == 9999 || z != "")
									ev.Sample("value:"+k, c)
									if !b.Check("c18.value", c, checkDTValue(c)) {
										return
									}
								}
							}
						}
					}
				}
			}
		}
		ev.Exhaustive("value_grid_instants_by_offsets_by_precisions_by_zones", int64(i))
	})
	t.Run("hostile_inputs", func(t *testing.T) {
		b := ev.enum(t)
		ins := hostileInputs()
		i := 0
		for _, k := range dtKinds {
			for _, in := range ins {
				for _, direct := range []bool{false, true} {
					i++
					if !mine(i) {
						continue
					}
					c := HostileCase{Kind: k, Data: in, Direct: direct}
					key, _ := json.Marshal(c)
					ev.Eval(string(key), len(in) < 14 || !strings.HasPrefix(in, `"`))
					ev.Sample("hostile:"+k, c)
					if !b.Check("c18.hostile", c, checkHostile(c)) {
						return
					}
				}
			}
		}
		ev.Exhaustive("hostile_inputs_by_type_by_call_style", int64(i))
	})
	ev.rapidProp(t, "random_values", func(rt *rapid.T) {
		c := DTValueCase{
			Kind: rapid.SampledFrom(dtKinds).Draw(rt, "kind"), Year: rapid.IntRange(1, 9999).Draw(rt, "y"), Month: rapid.IntRange(1, 12).Draw(rt, "mo"), Day: rapid.IntRange(1, 28).Draw(rt, "d"),
			Hour: rapid.IntRange(0, 23).Draw(rt, "h"), Min: rapid.IntRange(0, 59).Draw(rt, "mi"), Sec: rapid.IntRange(0, 59).Draw(rt, "s"),
			Nanos:  rapid.SampledFrom([]int{0, 1, 10, 999999999, 500000000, 123000000, 100}).Draw(rt, "ns") * rapid.IntRange(1, 1).Draw(rt, "one"),
			Offset: rapid.IntRange(-15*60-59, 15*60+59).Draw(rt, "off") * 60, // the displacements a zone can have (and the parsers accept): up to 15:59 either way
			Zone:   rapid.SampledFrom([]string{"", "UTC", "+05:30", "-12:00", "America/New_York"}).Draw(rt, "zone"),
		}
		if rapid.Bool().Draw(rt, "anynanos") {
			c.Nanos = rapid.IntRange(0, 999999999).Draw(rt, "nanos")
		}
		if rapid.IntRange(0, 9).Draw(rt, "edge") < 3 {
			// within two seconds of a change of a named zone's offset, as wall-clock time of that zone, under that zone
			c.Zone = rapid.SampledFrom(transitionZones).Draw(rt, "tzone")
			ts := zoneTransitions(c.Zone)
			loc, _ := time.LoadLocation(c.Zone)
			at := ts[rapid.IntRange(0, len(ts)-1).Draw(rt, "ti")].Add(time.Duration(rapid.IntRange(-2, 1).Draw(rt, "ds")) * time.Second).In(loc)
			_, off := at.Zone()
			c.Year, c.Month, c.Day, c.Hour, c.Min, c.Sec = at.Year(), int(at.Month()), at.Day(), at.Hour(), at.Minute(), at.Second()
			if off%60 == 0 && rapid.Bool().Draw(rt, "ownoff") {
				c.Offset = off
			}
			ev.Label("random:near_offset_change")
		}
		key, _ := json.Marshal(c)
		ev.Eval(string(key), true)
		ev.Check(rt, "c18.value", c, checkDTValue(c))
		if rapid.IntRange(0, 3).Draw(rt, "pz") == 0 {
			// the zone of the process is no input: the same relations hold when time.Local is a zone that
			// uses the value's offset (time.Parse then hands back values in time.Local)
			saved := time.Local
			for _, z := range []string{"America/New_York", "Australia/Sydney", "Asia/Kolkata"} {
				if loc, err := time.LoadLocation(z); err == nil {
					time.Local = loc
					v := checkDTValue(c)
					time.Local = saved
					if v != nil {
						v.Msg = "with time.Local = " + z + ": " + v.Msg
					}
					ev.Check(rt, "c18.value", c, v)
				}
			}
			ev.Label("random:under_three_process_zones")
		}
	})
	ev.rapidProp(t, "random_hostile", func(rt *rapid.T) {
		var data string
		switch rapid.IntRange(0, 3).Draw(rt, "src") {
		case 0:
			data = string(rapid.SliceOfN(rapid.Byte(), 0, 24).Draw(rt, "bytes"))
		case 1:
			data = `"` + rapid.StringOfN(rapid.RuneFrom([]rune("0123456789-+:TZ. ")), 0, 30, -1).Draw(rt, "dtchars") + `"`
		case 2:
			// a valid value of some type, possibly truncated or extended
			v := DTValueCase{Kind: rapid.SampledFrom(dtKinds).Draw(rt, "vk"), Year: 2015, Month: 8, Day: 1, Hour: 12, Min: 34, Sec: 56, Nanos: rapid.SampledFrom([]int{0, 500000000}).Draw(rt, "ns"), Offset: rapid.SampledFrom([]int{0, 19800, -14400}).Draw(rt, "off")}
			s := v.build().String()
			cut := rapid.IntRange(0, len(s)).Draw(rt, "cut")
			data = `"` + s[:cut] + rapid.SampledFrom([]string{"", "", "0", "+", ":00", "Z"}).Draw(rt, "ext") + `"`
		default:
			data = rapid.SampledFrom(hostileInputs()).Draw(rt, "known")
		}
		c := HostileCase{Kind: rapid.SampledFrom(dtKinds).Draw(rt, "kind"), Data: data, Direct: rapid.Bool().Draw(rt, "direct")}
		key, _ := json.Marshal(c)
		ev.Eval(string(key), true)
		ev.Sample("random_hostile", c)
		ev.Check(rt, "c18.hostile", c, checkHostile(c))
	})
}

// FuzzUnmarshalDatetime: coverage-guided driver of the hostile-input oracle.
func FuzzUnmarshalDatetime(f *testing.F) {
	for _, in := range hostileInputs() {
		f.Add([]byte(in), uint8(0))
		f.Add([]byte(in), uint8(4))
	}
	f.Fuzz(func(t *testing.T, data []byte, k uint8) {
		c := HostileCase{Kind: dtKinds[int(k)%len(dtKinds)], Data: string(data), Direct: k&0x80 != 0}
		if v := checkHostile(c); v != nil {
			t.Fatalf("%s", v.Msg)
		}
	})
}
