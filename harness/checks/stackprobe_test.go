package checks

// Open finding D42: the validator, the printer and the executor recurse once per nested operator /
// chained step with no depth limit, so a large enough path ends the process with Go's unrecoverable
// "fatal error: stack overflow" (1 GB of stack: some millions of levels). The checks cannot feed such
// an input in-process - the test binary would die - so the finding is demonstrated by a probe that
// re-executes the test binary as a child with a reduced maximum stack (32 MB), where 400,000 levels
// are enough, and looks for the fatal error in the child's output.

import (
	"bytes"
	"context"
	"fmt"
	"os"
	"os/exec"
	"runtime/debug"
	"strings"
	"testing"
	"time"

	"github.com/theory/sqljson/path"
)

func init() {
	quirkProbes["unbounded_recursion_stack_overflow"] = func() bool {
		ctx, cancel := context.WithTimeout(context.Background(), 120*time.Second)
		defer cancel()
		cmd := exec.CommandContext(ctx, os.Args[0], "-test.run", "^TestStackProbeChild$", "-test.count=1")
		cmd.Env = append(os.Environ(), "VERIF_STACK_CHILD=1")
		out, err := cmd.CombinedOutput()
		return err != nil && bytes.Contains(out, []byte("stack overflow"))
	}
}

// TestStackProbeChild only does something in the child process started by the probe above.
func TestStackProbeChild(t *testing.T) {
	if os.Getenv("VERIF_STACK_CHILD") != "1" {
		t.Skip("probe child only")
	}
	debug.SetMaxStack(32 << 20)
	text := strings.Repeat("-", 400000) + "$"
	p, err := path.Parse(text)
	if err != nil {
		fmt.Println("rejected:", err) // a depth limit would be a repair
		return
	}
	_ = p.String()
	_, _ = p.Query(context.Background(), float64(1))
	fmt.Println("survived")
}
