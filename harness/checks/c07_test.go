package checks

// C07 — lax mode absorbs structural mismatches; strict mode reports each one.

import (
	"fmt"
	"strings"
	"testing"

	"pgregory.net/rapid"
)

// StructCase: an accessor/filter path in both modes on one document.
type StructCase struct {
	Steps string `json:"steps"` // the text after $
	Doc   string `json:"doc"`
}

type structFacts struct {
	mismatch bool
	excluded string
	d19      bool
}

var c07Ev *Ev

var checkStruct = register("c07.structural", func(c StructCase) *Violation {
	v, _ := checkStructFacts(c)
	return v
})

func checkStructFacts(c StructCase) (*Violation, structFacts) {
	var f structFacts
	ev := c07Ev
	if ev == nil {
		ev = &Ev{Prop: "C07"}
	}
	for _, un := range []bool{false, true} {
		var laxItems []string
		for _, mode := range []string{"", "strict "} {
			ec := ExecCase{Path: mode + "$" + c.Steps, Doc: c.Doc, Opts: Opts{UseNumber: un}}
			pr, err := prepare(ec)
			if err != nil {
				f.excluded = "not_parsed"
				return nil, f
			}
			mr := RunModel(pr.tree, pr.doc, ec.Opts, nil, ev.quirk("subscript_drops_null"))
			if mr.Err != nil && mr.Err.dontCare {
				f.excluded = "dont_care"
				continue
			}
			if mr.UsedD19 {
				f.d19 = true
			}
			got := RunQuery(pr.ctx, pr.p, pr.doc)
			if got.Panic != "" {
				return violf("Query(%q, %s) panicked: %s", ec.Path, c.Doc, got.Panic), f
			}
			at := fmt.Sprintf("Query(%q, %s)", ec.Path, c.Doc)
			want := mRenderSeq(mr.Items)
			if mode == "" {
				// lax: never an error, whatever the shape of the data
				if got.Class != EOK {
					return violf("%s: lax mode returned an error for an accessor/filter path: %v", at, got.Err), f
				}
				if mr.Err != nil {
					return violf("harness: the lax model raised %s for %s", mr.Err.msg, at), f
				}
				laxItems = RenderSeq(got.Items, true)
			} else {
				// strict: a suppressible structural error exactly when some step meets a mismatch
				if mr.Err != nil {
					f.mismatch = true
					if got.Class != ESupp {
						return violf("%s: a step meets a structural mismatch (%s), so a suppressible error is required, but Query returned %s", at, mr.Err.msg, got), f
					}
					continue
				}
				if got.Class != EOK {
					return violf("%s: no step meets a structural mismatch, yet Query failed: %v (want %v)", at, got.Err, want), f
				}
			}
			g := RenderSeq(got.Items, true)
			ok := sameSeq(want, g)
			if mr.OrderOpen {
				ok = sameMultiset(want, g)
			}
			if !ok {
				return violf("%s: the structural rules give %v, Query returned %v", at, want, g), f
			}
		}
		_ = laxItems
	}
	return nil, f
}

var structSteps = []string{".a", ".b", ".*", "[*]", "[0]", "[1]", "[last]", "[0 to 1]", "[1, 0]", ".**", ".**{1}", ".**{1 to 2}", " ? (@.a == 1)", " ? (exists(@.a))", " ? (@ == 1)", " ? (@.a.b == null)", " ? (@[0] == 1)", " ? (@[1] == \"x\")", " ? (@.* == 1)"}

func TestC07(t *testing.T) {
	ev := newEv(t, "C07")
	c07Ev = ev
	ev.replayTier(t)
	record := func(class string, c StructCase, f structFacts) {
		ev.Eval(c.Steps+"\x00"+c.Doc, f.mismatch)
		if f.excluded != "" {
			ev.Excluded(f.excluded)
		}
		if f.d19 {
			ev.KFCase("D19")
		}
		if f.mismatch {
			ev.Label("strict_mismatch_met")
		} else {
			ev.Label("no_mismatch")
		}
		ev.Sample(class, c)
	}
	t.Run("exhaustive", func(t *testing.T) {
		b := ev.enum(t)
		maxNodes2, maxNodes3 := 4, 2
		if thorough() {
			maxNodes2, maxNodes3 = 5, 3
		}
		i := 0
		run := func(steps, doc string) bool {
			i++
			if !mine(i) {
				return true
			}
			c := StructCase{Steps: steps, Doc: doc}
			v, f := checkStructFacts(c)
			record("exhaustive", c, f)
			return b.Check("c07.structural", c, v)
		}
		for n := 1; n <= maxNodes2; n++ {
			for _, d := range treesWith(n) {
				for _, s1 := range structSteps {
					if !run(s1, d) {
						return
					}
					for _, s2 := range structSteps {
						if !run(s1+s2, d) {
							return
						}
					}
				}
			}
		}
		for n := 1; n <= maxNodes3; n++ {
			for _, d := range treesWith(n) {
				for _, s1 := range structSteps {
					for _, s2 := range structSteps {
						for _, s3 := range structSteps {
							if !run(s1+s2+s3, d) {
								return
							}
						}
					}
				}
			}
		}
		ev.Exhaustive("one_to_three_step_accessor_paths_by_all_small_trees_by_mode", int64(i))
	})
	ev.rapidProp(t, "random", func(rt *rapid.T) {
		p := GenPath(rt, GenCfg{MaxNodes: 12, AccessorsOnly: true, NoLiteralRoot: true, NoVars: true})
		text := p.Canon()
		text = strings.TrimPrefix(text, "strict ")
		if !strings.HasPrefix(text, "$") {
			rt.Skip("not rooted at $")
		}
		// the offending element at a drawn position of a regular array
		doc := GenDoc(rt, DocCfg{Rich: rapid.IntRange(0, 9).Draw(rt, "rich") < 7, Keys: []string{"a", "b", "c", "key"}}, "doc")
		c := StructCase{Steps: text[1:], Doc: doc.Text()}
		v, f := checkStructFacts(c)
		record("random", c, f)
		ev.Check(rt, "c07.structural", c, v)
	})
}
