package checks

// TestReplay re-executes one stored case (VERIF_REPLAY=<file>) with no
// generator and no rapid involved: the plain regression check.

import (
	"fmt"
	"os"
	"testing"
)

func TestReplay(t *testing.T) {
	f := os.Getenv("VERIF_REPLAY")
	if f == "" {
		t.Skip("VERIF_REPLAY not set")
	}
	rf, v, err := runReplayFile(f)
	if err != nil {
		t.Fatalf("cannot replay %s: %v", f, err)
	}
	if v != nil {
		fmt.Printf("VIOLATION property=%s replay=%s\n", rf.Property, f)
		t.Fatalf("%s: %s", rf.Check, v.Msg)
	}
	fmt.Printf("replay of %s (%s): the property holds on this case\n", f, rf.Check)
}
