package checks

// C16 — item methods convert within their documented domains and ranges.

import (
	"context"
	"encoding/json"
	"fmt"
	"math"
	"math/big"
	"os"
	"reflect"
	"regexp"
	"strconv"
	"strings"
	"testing"

	"github.com/theory/sqljson/path/exec"
	"pgregory.net/rapid"
)

// MethodCase: $<chain> applied to a value given as Go-typed variable.
type MethodCase struct {
	Chain  string  `json:"chain"` // e.g. ".integer()" or ".decimal(5,2)"
	Value  Operand `json:"value"` // repr: f64 | num | str | json (any JSON text)
	Strict bool    `json:"strict,omitempty"`
}

func (c MethodCase) goValue() (any, bool) {
	switch c.Value.Repr {
	case "str":
		return c.Value.Text, true
	case "json":
		v, err := Decode(c.Value.Text, false)
		return v, err == nil
	case "jsonnum":
		v, err := Decode(c.Value.Text, true)
		return v, err == nil
	case "i64":
		// the executor's own integer representation (what integer literals and .bigint() produce)
		i, err := strconv.ParseInt(c.Value.Text, 10, 64)
		return i, err == nil
	}
	return c.Value.goValue(), true
}

type methodFacts struct {
	class    string
	excluded bool
	boundary bool
}

var checkMethod = register("c16.method", func(c MethodCase) *Violation {
	v, _ := checkMethodFacts(c)
	return v
})

func closeEnough(a, b *big.Rat) bool {
	if a.Cmp(b) == 0 {
		return true
	}
	d := new(big.Rat).Sub(a, b)
	d.Abs(d)
	m := new(big.Rat).Abs(a)
	// no tolerance since the D48 repair: .decimal() rounds exactly, as the model does
	_ = m
	return false
}

var (
	paddedDecimalRe   = regexp.MustCompile(`^[+-]?[0-9]+$`)
	plainConversionRe = regexp.MustCompile(`^\.(integer|bigint|double|number|decimal)\(\)$`)
)

func checkMethodFacts(c MethodCase) (*Violation, methodFacts) {
	var f methodFacts
	val, ok := c.goValue()
	if !ok {
		f.excluded = true
		return nil, f
	}
	text := "$v" + c.Chain
	if c.Strict {
		text = "strict " + text
	}
	p, err, pan := ParseSafe(text)
	if pan != "" {
		return violf("Parse(%q) panicked: %s", text, pan), f
	}
	if err != nil {
		f.excluded = true
		return nil, f
	}
	vars := map[string]any{"v": val}
	mr := RunModel(PathFromAST(p.AST), nil, Opts{TZ: true}, vars, false)
	if mr.Err != nil && mr.Err.dontCare {
		// Whether a conversion accepts a non-canonical spelling is open - but not what it means: a string of
		// decimal digits, zero-padded or signed ("010", "+7", "-0012"), is that decimal number in SQL and in
		// every other reading but C's octal. If the method accepts it, it returns that number.
		if s, isStr := val.(string); isStr && paddedDecimalRe.MatchString(s) && plainConversionRe.MatchString(c.Chain) {
			got := RunQuery(context.Background(), p, nil, exec.WithVars(exec.Vars(vars)), exec.WithTZ())
			if got.Panic != "" {
				return violf("%s on %s panicked: %s", text, c.Value.Text, got.Panic), f
			}
			if got.Class == EOK && len(got.Items) == 1 {
				want, _ := new(big.Rat).SetString(strings.TrimPrefix(s, "+"))
				if gr, isNum := numRat(got.Items[0]); !isNum || gr.Cmp(want) != 0 {
					return violf("%s with v=%q: the string is the decimal number %s; the method may reject the spelling, but it returned %s", text, s, want.RatString(), Render(got.Items[0], false)), f
				}
			}
			f.class = "padded_decimal_string"
			return nil, f
		}
		f.excluded = true
		return nil, f
	}
	got := RunQuery(context.Background(), p, nil, exec.WithVars(exec.Vars(vars)), exec.WithTZ())
	if got.Panic != "" {
		return violf("%s on %s panicked: %s", text, c.Value.Text, got.Panic), f
	}
	f.class = got.Class
	at := fmt.Sprintf("%s with v=%s (%s)", text, c.Value.Text, c.Value.Repr)
	wantClass := EOK
	if mr.Err != nil {
		wantClass = ESupp
		if mr.Err.hard {
			wantClass = EHard
		}
	}
	if got.Class != wantClass {
		why := ""
		if mr.Err != nil {
			why = " (" + mr.Err.msg + ")"
		}
		return violf("%s: the documented domain/range rules give class %s%s and items %v, Query returned %s", at, wantClass, why, mRenderSeq(mr.Items), got), f
	}
	// "reject ... with a suppressible error": WithSilent must swallow exactly those
	silent := RunQuery(context.Background(), p, nil, exec.WithVars(exec.Vars(vars)), exec.WithTZ(), exec.WithSilent())
	switch {
	case silent.Panic != "":
		return violf("%s with WithSilent panicked: %s", at, silent.Panic), f
	case wantClass == EHard && silent.Class != EHard:
		return violf("%s: the non-suppressible error (%s) must survive WithSilent, got %s", at, mr.Err.msg, silent), f
	case wantClass != EHard && silent.Class != EOK:
		return violf("%s with WithSilent returned %s: a domain/range rejection must be suppressible", at, silent), f
	}
	if wantClass != EOK {
		return nil, f
	}
	if len(got.Items) != len(mr.Items) {
		return violf("%s: want %v, got %v", at, mRenderSeq(mr.Items), RenderSeq(got.Items, true)), f
	}
	for i := range got.Items {
		// every number anywhere must be finite and inside the declared range
		if fl, isF := got.Items[i].(float64); isF && (math.IsInf(fl, 0) || math.IsNaN(fl)) {
			return violf("%s returned a non-finite number", at), f
		}
		gr, gok := numRat(got.Items[i])
		wr, wok := numRat(mr.Items[i])
		if gok && wok {
			tolerant := strings.Contains(c.Chain, "decimal(")
			if gr.Cmp(wr) != 0 && !(tolerant && closeEnough(wr, gr)) {
				return violf("%s: want %s, got %s", at, wr.RatString(), gr.RatString()), f
			}
			continue
		}
		if mRender(mr.Items[i]) != Render(got.Items[i], true) {
			return violf("%s: want %s, got %s", at, mRender(mr.Items[i]), Render(got.Items[i], true)), f
		}
	}
	// range postconditions, stated directly from the property
	for _, it := range got.Items {
		r, isNum := numRat(it)
		if !isNum {
			continue
		}
		last := c.Chain[strings.LastIndex(c.Chain, "."):]
		switch {
		case last == ".integer()":
			if !r.IsInt() || r.Cmp(big.NewRat(math.MaxInt32, 1)) > 0 || r.Cmp(big.NewRat(math.MinInt32, 1)) < 0 {
				return violf("%s returned %s, outside int32", at, r.RatString()), f
			}
		case last == ".bigint()":
			if !fitsInt64(r) {
				return violf("%s returned %s, outside int64", at, r.RatString()), f
			}
		}
	}
	return nil, f
}

var boundaryNumbers = []string{"0", "-0.0", "1", "-1", "0.5", "-0.5", "1.5", "2.5", "-2.5", "0.4999999999999999", "2147483647", "2147483648", "2147483647.4", "2147483647.5", "2147483646.5", "-2147483648", "-2147483649", "-2147483648.5", "-2147483648.4",
	"9223372036854775807", "9223372036854775808", "-9223372036854775808", "-9223372036854775809", "9223372036854775806.5", "9007199254740992", "9007199254740993", "4611686018427387904", "1e18", "1e19", "9.223372036854775e18", "-9.223372036854776e18",
	"1e308", "-1e308", "1.7976931348623157e308", "5e-324", "1e-7", "123.456", "-123.456", "99.5", "100", "101", "0.05", "-0.05", "12345.678", "1e21", "0.1", "1e400", "-1e400"}

func methodGrid() []MethodCase {
	var out []MethodCase
	simple := []string{".type()", ".size()", ".double()", ".number()", ".integer()", ".bigint()", ".boolean()", ".string()", ".abs()", ".floor()", ".ceiling()", ".decimal()", ".keyvalue()"}
	// numbers in three forms
	for _, n := range boundaryNumbers {
		for _, repr := range []string{"f64", "num", "str"} {
			if repr == "f64" && strings.Contains(n, "e400") {
				continue
			}
			for _, m := range simple {
				out = append(out, MethodCase{Chain: m, Value: Operand{repr, n}})
			}
			// .string() output converts back with the matching method
			for _, m := range []string{".double()", ".number()", ".integer()", ".bigint()", ".boolean()"} {
				out = append(out, MethodCase{Chain: ".string()" + m, Value: Operand{repr, n}})
			}
		}
	}
	// the executor's int64 representation at its limits, directly and as produced inside a path
	for _, n := range []string{"-9223372036854775808", "9223372036854775807", "-9223372036854775807", "2147483648", "-2147483649", "0"} {
		for _, m := range simple {
			out = append(out, MethodCase{Chain: m, Value: Operand{"i64", n}})
		}
		for _, m := range []string{".abs()", ".floor()", ".ceiling()", ".string()", ".integer()", ".double()"} {
			out = append(out, MethodCase{Chain: ".bigint()" + m, Value: Operand{"str", n}}, MethodCase{Chain: ".bigint()" + m, Value: Operand{"num", n}})
		}
	}
	// other input types
	for _, j := range []string{`null`, `true`, `false`, `"abc"`, `""`, `"true"`, `"T"`, `"yes"`, `"No"`, `"on"`, `"OFF"`, `"1"`, `"0"`, `"2"`, `"010"`, `"0017"`, `"-0012"`, `"+7"`, `"0000002147483647"`, `"00"`, `"08"`, `"-09"`, `"tru"`, `"ye\u017f"`, `"fal\u017fe"`, `"YE\u017f"`, `"\u017f"`, `"o\uff2e"`, `"TRUE"`, `"yEs"`, `"oFf"`, `"N"`, `" 1"`, `"1 "`, `"0x10"`, `"1_0"`, `"1e5"`, `"1.0"`, `"+1"`, `"-0"`, `"Infinity"`, `"NaN"`, `"nan"`, `"inf"`, `[]`, `[1,2.5,"3"]`, `[[1]]`, `[null]`, `{}`, `{"a":1}`, `{"a":1,"b":{"c":2}}`, `[{"a":1},{"b":2}]`, `"2015-08-01"`, `"12:34:56"`} {
		for _, m := range simple {
			for _, strict := range []bool{false, true} {
				for _, repr := range []string{"json", "jsonnum"} {
					out = append(out, MethodCase{Chain: m, Value: Operand{repr, j}, Strict: strict})
				}
			}
		}
	}
	// json.Numbers written with a fraction or an exponent whose value is an odd integer in [2^52, 2^53),
	// and the doubles next to one half: rounding by "add a half and truncate" is off by one there
	for _, n := range []string{"9007199254740991.0", "9.007199254740991e15", "4503599627370497.0", "-4503599627370497.0", "4503599627370499.0", "0.49999999999999994", "-0.49999999999999994", "0.5000000000000001", "4503599627370496.5", "2147483647.4", "-2147483648.4", "2147483646.5"} {
		for _, m := range []string{".bigint()", ".integer()", ".double()", ".number()", ".decimal(16)", ".floor()", ".ceiling()", ".abs()"} {
			for _, repr := range []string{"num", "f64", "str"} {
				out = append(out, MethodCase{Chain: m, Value: Operand{repr, n}})
			}
		}
	}
	// .decimal(p,s) where num*10^s reaches 2^53, where the scale is beyond 308, and decimal ties that are not binary ties
	for _, x := range []struct {
		n    string
		p, s int
	}{{"95", 22, 20}, {"12345.678", 38, 20}, {"1000000000000000.5", 17, 1}, {"2147483647", 38, 23}, {"1.7e-309", 10, 309}, {"4e-311", 10, 310}, {"5e-324", 1, 323}, {"2.5e-320", 5, 320},
		{"1.005", 10, 2}, {"1.015", 10, 2}, {"1.115", 10, 2}, {"2.675", 10, 2}, {"0.285", 10, 2}, {"-1.005", 10, 2}, {"0.145", 5, 2}, {"8.345", 5, 2}, {"1e22", 30, 5}, {"123456789012345678", 30, 10}, {"0.1", 25, 20}, {"950", 1, -2}, {"99.96", 3, 1}} {
		for _, repr := range []string{"f64", "num", "str"} {
			out = append(out, MethodCase{Chain: fmt.Sprintf(".decimal(%d,%d)", x.p, x.s), Value: Operand{repr, x.n}}, MethodCase{Chain: fmt.Sprintf(".decimal(%d,%d).string()", x.p, x.s), Value: Operand{repr, x.n}})
		}
	}
	// (D49) integer items of 16 to 19 digits whose nearest double is a power of ten or lies on the other side of
	// the precision limit: the item is the integer, so it has the digits it is written with
	for _, n := range []string{"9999999999999999", "99999999999999999", "999999999999999999", "999999999999999936", "-999999999999999999", "1000000000000000000", "9223372036854775807", "-9223372036854775808", "99999999999999995", "9007199254740993", "123456789012345678"} {
		for _, ps := range [][2]int{{15, 0}, {16, 0}, {17, 0}, {18, 0}, {19, 0}, {20, 2}, {18, -1}, {17, -1}, {18, -2}, {16, -3}, {19, 1}} {
			for _, repr := range []string{"i64", "num", "str"} {
				out = append(out, MethodCase{Chain: fmt.Sprintf(".decimal(%d,%d)", ps[0], ps[1]), Value: Operand{repr, n}})
			}
			out = append(out, MethodCase{Chain: fmt.Sprintf(".bigint().decimal(%d,%d)", ps[0], ps[1]), Value: Operand{"num", n}}, MethodCase{Chain: fmt.Sprintf(".bigint().decimal(%d,%d)", ps[0], ps[1]), Value: Operand{"str", n}})
		}
	}
	// datetime items through .string() and .type()
	for _, s := range []string{"2015-08-01", "12:34:56", "12:34:56.789+05:30", "2015-08-01T12:34:56", "2015-08-01 12:34:56.5-04:00"} {
		for _, m := range []string{".datetime().string()", ".datetime().type()", ".datetime().string().datetime().string()", ".datetime().size()", ".datetime().double()", ".datetime().boolean()", ".datetime().keyvalue()", ".datetime().abs()"} {
			out = append(out, MethodCase{Chain: m, Value: Operand{"str", s}})
		}
	}
	// .decimal(p,s)
	// (the int32 limits themselves are in range as integers, so they reach the precision / scale
	// check and its non-suppressible error; one beyond is not an integer argument at all)
	// (4294967301 = 2^32 + 5, 4294967298 = 2^32 + 2: not integers in range, whatever their low 32 bits spell)
	precs := []int64{1, 2, 3, 6, 15, 16, 38, 1000, 0, 1001, -1, 2147483648, 2147483647, -2147483648, 4294967301, 4294967296}
	scales := []int64{-1000, -2, -1, 0, 1, 2, 15, 308, 400, 1000, 1001, -1001, 2147483648, -2147483649, 2147483647, -2147483648, 4294967298, -4294967295}
	for _, n := range []string{"0", "1", "-1", "0.5", "1.5", "2.5", "9.99", "99.5", "100", "101", "12345.678", "1e308", "5e-324", "0.05", "-0.05", "1e21", "0.001", "999.999", "-999.995", "1e-7", "123456789012345678", "0.1", "5", "50", "0.04", "0.06"} {
		for _, p := range precs {
			out = append(out, MethodCase{Chain: fmt.Sprintf(".decimal(%d)", p), Value: Operand{"f64", n}})
			for _, s := range scales {
				for _, repr := range []string{"f64", "num"} {
					out = append(out, MethodCase{Chain: fmt.Sprintf(".decimal(%d,%d)", p, s), Value: Operand{repr, n}})
				}
			}
		}
	}
	return out
}

// KVCase: keyvalue() over a document; ids equal within an object, distinct
// across objects, stable over repeated executions.
type KVCase struct {
	Doc       string `json:"doc"`
	Path      string `json:"path"`
	UseNumber bool   `json:"use_number,omitempty"`
}

// equidistantDoc builds an array holding two objects whose addresses lie at the same distance on
// opposite sides of the array's own address (nil if the allocator does not hand out such a layout).
func equidistantDoc() []any {
	addr := func(v any) uintptr { return reflect.ValueOf(v).Pointer() }
	var maps []map[string]any
	var arrs [][]any
	byAddr := map[uintptr]map[string]any{}
	for round := 0; round < 50; round++ {
		for i := 0; i < 64; i++ {
			m := make(map[string]any)
			a := make([]any, 3)
			maps, arrs = append(maps, m), append(arrs, a)
			byAddr[addr(m)] = m
		}
		for _, a := range arrs {
			aa := addr(a)
			for _, m := range maps {
				ma := addr(m)
				if other, ok := byAddr[2*aa-ma]; ok && ma != 2*aa-ma {
					m["k"], other["l"] = float64(1), float64(2)
					a[0], a[1], a[2] = m, other, float64(3)
					return a
				}
			}
		}
	}
	return nil
}

func init() {
	quirkProbes["keyvalue_id_equidistant_collision"] = func() bool {
		p, err, _ := ParseSafe("strict $[0, 1].keyvalue().id")
		doc := equidistantDoc()
		if err != nil || doc == nil {
			return false
		}
		o := RunQuery(context.Background(), p, doc)
		return o.Class == EOK && len(o.Items) == 2 && Render(o.Items[0], false) == Render(o.Items[1], false)
	}
	quirkProbes["keyvalue_ids_via_variable_follow_vars_map"] = func() bool {
		p, err, _ := ParseSafe("$x.keyvalue().id")
		if err != nil {
			return false
		}
		obj := MustDecode(`{"a":1}`, false)
		v1, v2 := exec.Vars{"x": obj}, exec.Vars{"x": obj}
		a := RunQuery(context.Background(), p, nil, exec.WithVars(v1))
		b := RunQuery(context.Background(), p, nil, exec.WithVars(v2))
		return a.Class == EOK && b.Class == EOK && !sameSeq(RenderSeq(a.Items, false), RenderSeq(b.Items, false))
	}
	quirkProbes["chained_keyvalue_ids_unstable"] = func() bool {
		p, err, _ := ParseSafe("$.keyvalue().value.keyvalue()")
		if err != nil {
			return false
		}
		doc := MustDecode(`{"a":{"b":1}}`, false)
		for i := 0; i < 20; i++ {
			a := RunQuery(context.Background(), p, doc)
			_ = make([]byte, 1<<16) // move the allocator along
			b := RunQuery(context.Background(), p, doc)
			if !sameSeq(RenderSeq(a.Items, false), RenderSeq(b.Items, false)) {
				return true
			}
		}
		return false
	}
}

var c16Ev *Ev

// equidistantObjects reports whether two different objects of doc lie at the same distance
// (in memory) from one of the base containers: the input class of open finding D34 - the id of
// an object is the absolute distance of its address from the base object, so two objects on
// opposite sides of the base at equal distance receive the same id.
func equidistantObjects(doc any, bases ...any) bool {
	addr := func(v any) (uintptr, bool) {
		switch v.(type) {
		case map[string]any, []any, exec.Vars:
			return reflect.ValueOf(v).Pointer(), true
		}
		return 0, false
	}
	var objs []uintptr
	var walk func(v any)
	walk = func(v any) {
		switch x := v.(type) {
		case map[string]any:
			if a, ok := addr(x); ok {
				objs = append(objs, a)
			}
			for _, e := range x {
				walk(e)
			}
		case []any:
			for _, e := range x {
				walk(e)
			}
		}
	}
	walk(doc)
	for _, b := range bases {
		ba, ok := addr(b)
		if !ok {
			continue
		}
		seen := map[uintptr]uintptr{}
		for _, a := range objs {
			d := a - ba
			if a < ba {
				d = ba - a
			}
			if prev, dup := seen[d]; dup && prev != a {
				return true
			}
			seen[d] = a
		}
	}
	return false
}

// kvCollisionKnown: a duplicate id between two objects is open finding D34 when the document
// really contains two objects equidistant from a base object (and the finding still reproduces).
func kvCollisionKnown(doc any, bases ...any) bool {
	if !equidistantObjects(doc, bases...) {
		return false
	}
	ev := c16Ev
	if ev == nil {
		ev = &Ev{Prop: "C16"}
	}
	if ev.quirk("keyvalue_id_equidistant_collision") {
		ev.KFCase("D34")
		return true
	}
	return false
}

var checkKeyvalue = register("c16.keyvalue", func(c KVCase) *Violation {
	p, err, pan := ParseSafe(c.Path)
	if err != nil || pan != "" {
		return nil
	}
	doc, derr := Decode(c.Doc, c.UseNumber)
	if derr != nil {
		return nil
	}
	vars := exec.Vars{"x": doc}
	run := func() Outcome { return RunQuery(context.Background(), p, doc, exec.WithVars(vars)) }
	first := run()
	if first.Panic != "" {
		return violf("%q on %s panicked: %s", c.Path, c.Doc, first.Panic)
	}
	if first.Class != EOK {
		return nil
	}
	// which source object does a triple come from? identify by the pointer of the value's parent:
	// group triples by id and check that each group is exactly the member set of one object
	type group struct {
		keys map[string]string
	}
	groups := map[string]*group{}
	var order []string
	for _, it := range first.Items {
		t, ok := it.(map[string]any)
		if !ok || !isTriple(t) {
			return nil // the path ended in something else (e.g. .value): nothing to check here
		}
		id := Render(t["id"], false)
		g := groups[id]
		if g == nil {
			g = &group{keys: map[string]string{}}
			groups[id] = g
			order = append(order, id)
		}
		k, _ := t["key"].(string)
		if _, dup := g.keys[k]; dup {
			if kvCollisionKnown(doc, doc, vars) {
				return nil
			}
			return violf("%q on %s: two triples with id %s and key %q", c.Path, c.Doc, id, k)
		}
		g.keys[k] = Render(t["value"], false)
	}
	// the objects the path visits, via the model (same traversal, no ids)
	mr := RunModel(PathFromAST(p.AST), doc, Opts{}, map[string]any{"x": doc}, false)
	if mr.Err != nil {
		return nil
	}
	// expected groups: consecutive runs of triples in the model output belong to one object
	// (keyvalue emits all members of an object before moving on)
	if len(mr.Items) != len(first.Items) {
		return violf("%q on %s: one triple per member is required: want %d triples, got %d", c.Path, c.Doc, len(mr.Items), len(first.Items))
	}
	// stable over repeated executions and across Query/First
	if strings.Count(c.Path, "keyvalue()") >= 2 {
		ev := c16Ev
		if ev == nil {
			ev = &Ev{Prop: "C16"}
		}
		if ev.quirk("chained_keyvalue_ids_unstable") {
			ev.KFCase("D30")
			return nil
		}
	}
	for i := 0; i < 3; i++ {
		again := run()
		if !sameMultiset(RenderSeq(first.Items, false), RenderSeq(again.Items, false)) {
			return violf("%q on %s: keyvalue ids are not stable over repeated executions: %v then %v", c.Path, c.Doc, RenderSeq(first.Items, false), RenderSeq(again.Items, false))
		}
	}
	// ... also when the caller builds the variable map anew for every call, as exec.WithVars(exec.Vars{...})
	// does: the inputs are the same (same path, same document, same object bound to the same name)
	if strings.Contains(c.Path, "$x") {
		keep := []exec.Vars{vars}
		for i := 0; i < 3; i++ {
			fresh := exec.Vars{"x": doc}
			keep = append(keep, fresh) // (all alive at once, so each is an allocation of its own)
			again := RunQuery(context.Background(), p, doc, exec.WithVars(fresh))
			if !sameMultiset(RenderSeq(first.Items, false), RenderSeq(again.Items, false)) {
				ev := c16Ev
				if ev == nil {
					ev = &Ev{Prop: "C16"}
				}
				if ev.quirk("keyvalue_ids_via_variable_follow_vars_map") {
					ev.KFCase("D53")
					break
				}
				return violf("%q on %s: keyvalue ids of an object reached through a variable are not stable over repeated executions when the variable map is built anew for each call: %v then %v", c.Path, c.Doc, RenderSeq(first.Items, false), RenderSeq(again.Items, false))
			}
		}
		_ = keep
	}
	fo := RunFirst(context.Background(), p, doc, exec.WithVars(vars))
	if fo.Class == EOK && fo.Item != nil && !contains(RenderSeq(first.Items, false), Render(fo.Item, false)) {
		return violf("%q on %s: First returned %s, which is not among Query's triples %v (ids differ between entry points)", c.Path, c.Doc, Render(fo.Item, false), RenderSeq(first.Items, false))
	}
	return nil
})

// kvDirectChain: every .keyvalue() after the first one applies directly to the triples of the one before it.
// Such a triple is its own base object (offset 0), so its id is the documented generation counter times 10^10
// and has no address in it: open finding D30 (ids that contain the address of a transient triple) does not
// reach these paths.
func kvDirectChain(pathText string) bool {
	parts := strings.Split(pathText, "keyvalue()")
	if len(parts) < 3 {
		return false
	}
	for _, mid := range parts[1 : len(parts)-1] {
		if mid != "." {
			return false
		}
	}
	return true
}

// checkKVChain: the ids of directly chained .keyvalue() steps are the same in every execution - whatever ran
// before on this Path, on another Path or through another entry point (nothing about an execution may survive it).
var checkKVChain = register("c16.kvchain", func(c KVCase) *Violation {
	p, err, pan := ParseSafe(c.Path)
	if err != nil || pan != "" || !kvDirectChain(c.Path) {
		return nil
	}
	doc, derr := Decode(c.Doc, c.UseNumber)
	if derr != nil {
		return nil
	}
	ctx := context.Background()
	first := RunQuery(ctx, p, doc)
	if first.Panic != "" {
		return violf("%q on %s panicked: %s", c.Path, c.Doc, first.Panic)
	}
	if first.Class != EOK || len(first.Items) == 0 {
		return nil
	}
	want := RenderSeq(first.Items, false)
	others := []string{"$.keyvalue()", "$.*.keyvalue().id", "$.keyvalue().keyvalue().id", "strict $.**.keyvalue().key", "$ ? (exists(@.keyvalue().value.double()))", "$.keyvalue() ? (@.value.keyvalue().id > 0)"}
	for i, ot := range others {
		q, qerr, _ := ParseSafe(ot)
		if qerr != nil {
			return violf("harness: %q does not parse", ot)
		}
		switch i % 4 {
		case 0:
			RunQuery(ctx, q, doc)
		case 1:
			RunFirst(ctx, q, doc)
		case 2:
			RunExists(ctx, q, doc)
		default:
			RunQuery(ctx, q, doc, exec.WithSilent())
		}
		var again Outcome
		how := "Query on the same Path"
		if i%2 == 0 {
			again = RunQuery(ctx, p, doc)
		} else {
			p2, _, _ := ParseSafe(c.Path)
			again = RunQuery(ctx, p2, doc)
			how = "Query on the path parsed again"
		}
		if got := RenderSeq(again.Items, false); again.Class != EOK || !sameMultiset(want, got) {
			return violf("%q on %s: keyvalue ids are not stable over repeated executions: the first execution returned %v; after %q had run, %s returned %v (%s)", c.Path, c.Doc, want, ot, how, got, again)
		}
	}
	return nil
})

var checkKVDistinctCase = register("c16.kvdistinct", func(c KVCase) *Violation {
	d, err := Decode(c.Doc, c.UseNumber)
	if err != nil {
		return nil
	}
	return checkKVDistinct(d, c.Doc)
})

// checkKVDistinct: $[*].keyvalue() over an array of objects: ids equal within
// an object and distinct across the objects.
func checkKVDistinct(doc any, docText string) *Violation {
	arr, ok := doc.([]any)
	if !ok {
		return nil
	}
	p, _, _ := ParseSafe("strict $[*].keyvalue()")
	o := RunQuery(context.Background(), p, doc)
	if o.Class != EOK {
		return nil
	}
	i := 0
	seen := map[string]int{}
	for oi, el := range arr {
		m, ok := el.(map[string]any)
		if !ok {
			return nil
		}
		var id string
		for range m {
			if i >= len(o.Items) {
				return violf("$[*].keyvalue() on %s returned too few triples", docText)
			}
			t := o.Items[i].(map[string]any)
			i++
			tid := Render(t["id"], false)
			if id == "" {
				id = tid
			} else if id != tid {
				return violf("$[*].keyvalue() on %s: the members of object %d carry different ids %s and %s", docText, oi, id, tid)
			}
		}
		if id != "" {
			if prev, dup := seen[id]; dup {
				if kvCollisionKnown(doc, doc) {
					return nil
				}
				return violf("$[*].keyvalue() on %s: distinct objects %d and %d share id %s", docText, prev, oi, id)
			}
			seen[id] = oi
		}
	}
	return nil
}

// checkKVAfterFilter: ids are a function of the object, so evaluating
// .keyvalue() inside a (always true for non-empty objects) filter condition,
// in existence mode or with a suppressed failure, must not change the ids of a
// following .keyvalue() on the same items.
var checkKVFilterCase = register("c16.kvfilter", func(c KVCase) *Violation {
	d, err := Decode(c.Doc, c.UseNumber)
	if err != nil {
		return nil
	}
	return checkKVAfterFilter(d, c.Doc, c.Path)
})

func checkKVAfterFilter(doc any, docText string, prefix string) *Violation {
	plain, _, _ := ParseSafe(prefix + ".keyvalue()")
	guards := []string{" ? (exists(@.keyvalue().key))", " ? (exists(@.keyvalue().value.double()) || 1 == 1)", " ? (@.keyvalue().key starts with \"zz\" || 1 == 1)", " ? ((@.keyvalue().value > 1) is unknown || 1 == 1)"}
	a := RunQuery(context.Background(), plain, doc)
	if a.Class != EOK {
		return nil
	}
	for _, g := range guards {
		p, err, _ := ParseSafe(prefix + g + ".keyvalue()")
		if err != nil {
			continue
		}
		b := RunQuery(context.Background(), p, doc)
		if b.Class != EOK {
			continue
		}
		// the guard drops empty objects and non-objects; compare the ids of the triples both return
		ids := map[string]string{}
		for _, it := range a.Items {
			t := it.(map[string]any)
			ids[Render(t["key"], false)+"="+Render(t["value"], false)] = Render(t["id"], false)
		}
		dup := map[string]int{}
		for _, it := range a.Items {
			t := it.(map[string]any)
			dup[Render(t["key"], false)+"="+Render(t["value"], false)]++
		}
		for _, it := range b.Items {
			t := it.(map[string]any)
			k := Render(t["key"], false) + "=" + Render(t["value"], false)
			if dup[k] != 1 {
				continue // the same member occurs in several objects: not attributable
			}
			if want := ids[k]; want != Render(t["id"], false) {
				return violf("%s%s.keyvalue() on %s: member %s has id %s, but %s.keyvalue() gives it id %s", prefix, g, docText, k, Render(t["id"], false), prefix, want)
			}
		}
	}
	return nil
}

// checkKVContext: the id of an object does not depend on where in the path the
// object is reached from: P.keyvalue().id evaluated at top level, inside a filter
// over a variable, inside a filter over the triples of another object and
// inside a filter over its own triples is one and the same number.
var checkKVContextCase = register("c16.kvcontext", func(c KVCase) *Violation {
	d, err := Decode(c.Doc, c.UseNumber)
	if err != nil {
		return nil
	}
	P := c.Path
	top, _, _ := ParseSafe("strict " + P + ".keyvalue().id")
	if top == nil {
		return nil
	}
	a := RunQuery(context.Background(), top, d)
	if a.Class != EOK || len(a.Items) == 0 {
		return nil // P is not a non-empty object here
	}
	id := Render(a.Items[0], false)
	for _, it := range a.Items {
		if Render(it, false) != id {
			return violf("strict %s.keyvalue().id on %s: the triples of one object carry different ids %v", P, c.Doc, RenderSeq(a.Items, false))
		}
	}
	vars := exec.Vars{"v": float64(1), "o": map[string]any{"k": float64(1), "l": float64(2)}}
	for _, ctx := range []struct {
		path string
		want string // "all": keeps every item of the unfiltered producer
	}{
		{"strict $v ? (" + P + ".keyvalue().id == " + id + ")", "strict $v"},
		{"strict $o.keyvalue() ? (" + P + ".keyvalue().id == " + id + ")", "strict $o.keyvalue()"},
		{"strict " + P + ".keyvalue() ? (@.id == " + P + ".keyvalue().id)", "strict " + P + ".keyvalue()"},
		{"strict $ ? (exists($v ? (" + P + ".keyvalue().id == " + id + ")))", "strict $"},
		{"strict $o.* ? (" + P + ".keyvalue().id == " + id + " && @ > 0)", "strict $o.*"},
	} {
		fp, e1, _ := ParseSafe(ctx.path)
		up, e2, _ := ParseSafe(ctx.want)
		if e1 != nil || e2 != nil {
			return violf("harness: %q or %q does not parse: %v %v", ctx.path, ctx.want, e1, e2)
		}
		got := RunQuery(context.Background(), fp, d, exec.WithVars(vars))
		all := RunQuery(context.Background(), up, d, exec.WithVars(vars))
		if all.Class != EOK {
			continue
		}
		if got.Class != EOK || len(got.Items) != len(all.Items) {
			return violf("%s.keyvalue() has id %s at top level on %s, so %q must keep all %d item(s) of %q; Query returned %s", P, id, c.Doc, ctx.path, len(all.Items), ctx.want, got)
		}
	}
	return nil
})

// LongItemCase: a number item Head + Zeros x "0" + Tail of a thousand or a million characters, as json.Number or
// as string. Exact decimal arithmetic has limits of its own (big.Rat refuses more than a million fraction
// digits, D61); whatever a method does beyond them, a text that .double() reads as a small number is a number
// for .integer() and .bigint() too, and their result is the double rounded or one of its two neighbours.
// (Every case has its decimal point among the first digits: mantissas of more than 800 digits without one are
// the class of open finding D58, where .double() itself is wrong.)
type LongItemCase struct {
	Head  string `json:"head"`
	Zeros int    `json:"zeros"`
	Tail  string `json:"tail"`
	Str   bool   `json:"str,omitempty"`
	Fill  string `json:"fill,omitempty"` // the repeated digit, "0" if empty
}

var checkLongItem = register("c16.longitem", func(c LongItemCase) *Violation {
	fill := c.Fill
	if fill == "" {
		fill = "0"
	}
	text := c.Head + strings.Repeat(fill, c.Zeros) + c.Tail
	what := fmt.Sprintf("%s + %d x %q + %s", c.Head, c.Zeros, fill, c.Tail)
	var item any = json.Number(text)
	if c.Str {
		item = text
	}
	run := func(m string) Outcome {
		p, _, _ := ParseSafe("$" + m)
		return RunQuery(context.Background(), p, item)
	}
	d := run(".double()")
	if d.Panic != "" {
		return violf(".double() on %s panicked: %.200s", what, d.Panic)
	}
	if d.Class != EOK || len(d.Items) != 1 {
		return nil
	}
	f, ok := d.Items[0].(float64)
	if !ok || math.Abs(f) > 9e18 {
		return nil
	}
	for _, m := range []string{".integer()", ".bigint()", ".number()", ".decimal()", ".decimal(12,1)"} {
		if c.Str && m == ".integer()" || c.Str && m == ".bigint()" {
			continue // a string must be an integer literal for these two
		}
		if math.Abs(f) > 1e9 && (m == ".integer()" || m == ".decimal(12,1)") {
			continue // beyond their ranges
		}
		o := run(m)
		if o.Panic != "" {
			return violf("%s on %s panicked: %.200s", m, what, o.Panic)
		}
		if o.Class != EOK || len(o.Items) != 1 {
			return violf(".double() reads the item %s as %v, but %s returned %.300s", what, f, m, o.String())
		}
		r, isNum := asNum(o.Items[0])
		if !isNum || math.Abs(r.float()-f) > 1 {
			return violf(".double() reads the item %s as %v, but %s returned %s", what, f, m, Render(o.Items[0], false))
		}
		// within math/big's limits the conversions of a json.Number to an integer are exact (D38), however long the text
		if exact, ok := new(big.Rat).SetString(text); ok && !c.Str && (m == ".integer()" || m == ".bigint()") {
			if want := roundHalfAway(exact); r.rat().Cmp(want) != 0 {
				return violf("%s on the json.Number %s: the number rounds to %s, got %s", m, what, want.RatString(), Render(o.Items[0], false))
			}
		}
	}
	return nil
})

func TestC16(t *testing.T) {
	ev := newEv(t, "C16")
	c16Ev = ev
	ev.replayTier(t)
	_ = ev.quirk("keyvalue_id_equidistant_collision") // prints the KNOWN-FINDING line while the finding reproduces
	_ = ev.quirk("keyvalue_ids_via_variable_follow_vars_map")
	t.Run("long_items", func(t *testing.T) {
		if os.Getenv("VERIF_ARCH32") != "" {
			t.Skip("million-digit texts are converted by math/big, slowly on a 32-bit build; the regular pass covers them")
		}
		b := ev.enum(t)
		var cs []LongItemCase
		for _, z := range []int{1000, 1000001} {
			for _, str := range []bool{false, true} {
				cs = append(cs, LongItemCase{Head: "1.5", Zeros: z, Str: str}, LongItemCase{Head: "-2.5", Zeros: z, Tail: "1", Str: str}, LongItemCase{Head: "7.", Zeros: z, Tail: "e0", Str: str})
				if z < 99000 { // (strconv.ParseFloat reads exponents of more than five digits as saturated: the family of open finding D58)
					cs = append(cs, LongItemCase{Head: "0.", Zeros: z, Tail: fmt.Sprintf("25e%d", z+2), Str: str})
				}
			}
		}
		// digits a double cannot see, thousands of characters into the text
		for _, z := range []int{500, 5000, 70000} {
			cs = append(cs, LongItemCase{Head: "0.4", Zeros: z, Fill: "9"}, LongItemCase{Head: "9007199254740993.", Zeros: z}, LongItemCase{Head: "2147483647.4", Zeros: z, Fill: "9"},
				LongItemCase{Head: "-0.5", Zeros: z, Tail: "1"}, LongItemCase{Head: "1.5", Zeros: z, Tail: "e0"}, LongItemCase{Head: "-2147483648.4", Zeros: z, Fill: "9", Tail: "e0"}, LongItemCase{Head: "0.5", Zeros: z}, LongItemCase{Head: "2.4", Zeros: z, Fill: "9", Tail: "8"})
		}
		for i, c := range cs {
			if !mine(i) {
				continue
			}
			ev.Eval(fmt.Sprintf("longitem:%s:%d:%s:%s:%v", c.Head, c.Zeros, c.Fill, c.Tail, c.Str), true)
			ev.Sample("long_items", c)
			if !b.Check("c16.longitem", c, checkLongItem(c)) {
				return
			}
		}
		ev.Exhaustive("number_items_of_a_thousand_and_a_million_digits", int64(len(cs)))
	})
	t.Run("grid", func(t *testing.T) {
		b := ev.enum(t)
		cs := methodGrid()
		for i, c := range cs {
			if !mine(i) {
				continue
			}
			v, f := checkMethodFacts(c)
			key, _ := json.Marshal(c)
			ev.Eval(string(key), !f.excluded)
			if f.excluded {
				ev.Excluded("left_open_by_the_documentation")
			} else {
				ev.Label("query:" + f.class)
			}
			ev.Sample("grid:"+f.class, c)
			if !b.Check("c16.method", c, v) {
				return
			}
		}
		ev.Exhaustive("method_by_input_by_representation_grid", int64(len(cs)))
	})
	ev.rapidProp(t, "random_numbers", func(rt *rapid.T) {
		var text string
		switch rapid.IntRange(0, 4).Draw(rt, "k") {
		case 0:
			text = fmt.Sprint(rapid.Int64().Draw(rt, "i"))
		case 1:
			// around the int32 / int64 limits with fractions
			base := rapid.SampledFrom([]float64{2147483647, -2147483648, 9223372036854775807, -9223372036854775808, 0}).Draw(rt, "base")
			text = fmt.Sprint(base + float64(rapid.IntRange(-4, 4).Draw(rt, "d"))/2)
		case 2:
			text = fmt.Sprint(rapid.Float64Range(-1e6, 1e6).Draw(rt, "f"))
		case 3:
			text = fmt.Sprintf("%d.%d", rapid.IntRange(-999, 999).Draw(rt, "ip"), rapid.IntRange(0, 9999).Draw(rt, "fp"))
		default:
			text = fmt.Sprint(rapid.Float64().Draw(rt, "any"))
		}
		if strings.ContainsAny(text, "IN") {
			text = "1.5"
		}
		chain := rapid.SampledFrom([]string{".integer()", ".bigint()", ".double()", ".number()", ".abs()", ".floor()", ".ceiling()", ".boolean()", ".string()", ".string().number()", ".string().double()",
			fmt.Sprintf(".decimal(%d,%d)", rapid.IntRange(1, 20).Draw(rt, "p"), rapid.IntRange(-5, 12).Draw(rt, "s"))}).Draw(rt, "chain")
		c := MethodCase{Chain: chain, Value: Operand{rapid.SampledFrom([]string{"f64", "num", "str"}).Draw(rt, "repr"), text}}
		v, f := checkMethodFacts(c)
		key, _ := json.Marshal(c)
		ev.Eval(string(key), !f.excluded)
		ev.Sample("random:"+chain[:4], c)
		ev.Check(rt, "c16.method", c, v)
	})
	ev.rapidProp(t, "keyvalue", func(rt *rapid.T) {
		doc := GenDoc(rt, DocCfg{Rich: rapid.Bool().Draw(rt, "rich"), MaxObj: 5, Keys: []string{"a", "b", "c", "d", "e", "key", "value", "id"}}, "doc")
		pathText := rapid.SampledFrom([]string{"$.keyvalue()", "$[*].keyvalue()", "$.*.keyvalue()", "strict $.**.keyvalue()", "$x.keyvalue()", "$x[*].keyvalue()", "$.keyvalue().value.keyvalue()", "$[*].keyvalue().keyvalue()", "$.a.keyvalue()", "$.a[*].keyvalue()"}).Draw(rt, "path")
		c := KVCase{Doc: doc.Text(), Path: pathText, UseNumber: rapid.Bool().Draw(rt, "num")}
		ev.Eval(c.Path+"\x00"+c.Doc, true)
		ev.Sample("keyvalue", c)
		ev.Check(rt, "c16.keyvalue", c, checkKeyvalue(c))
		if rapid.IntRange(0, 2).Draw(rt, "chain") == 0 {
			cc := KVCase{Doc: c.Doc, UseNumber: c.UseNumber, Path: rapid.SampledFrom([]string{"$.keyvalue().keyvalue()", "$.keyvalue().keyvalue().id", "$[*].keyvalue().keyvalue().id", "$.keyvalue().keyvalue().keyvalue().id", "$.a.keyvalue().keyvalue()", "strict $.**.keyvalue().keyvalue().id", "$.*.keyvalue().keyvalue().keyvalue()"}).Draw(rt, "chainpath")}
			ev.Label("keyvalue:direct_chain")
			ev.Check(rt, "c16.kvchain", cc, checkKVChain(cc))
		}
		if _, err := Decode(c.Doc, c.UseNumber); err == nil {
			ev.Check(rt, "c16.kvdistinct", c, checkKVDistinctCase(c))
			for _, pre := range []string{"$[*]", "$", "$.a", "$.a[*]", "strict $.**"} {
				kc := KVCase{Doc: c.Doc, Path: pre, UseNumber: c.UseNumber}
				ev.Check(rt, "c16.kvfilter", kc, checkKVFilterCase(kc))
			}
			for _, pre := range []string{"$", "$.a", "$.b", "$[0]", "$.a[0]", "$.a.b", "$[1]"} {
				kc := KVCase{Doc: c.Doc, Path: pre, UseNumber: c.UseNumber}
				ev.Check(rt, "c16.kvcontext", kc, checkKVContextCase(kc))
			}
		}
	})
}
