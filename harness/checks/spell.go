package checks

// Random spellings of an abstract path: every lexical and syntactic
// alternative the documented syntax offers (README "Syntax", Appendix B of
// DESIGN.md) is an independent rapid draw.

import (
	"fmt"
	"math"
	"strconv"
	"strings"
	"unicode"
	"unicode/utf16"

	"pgregory.net/rapid"
)

type speller struct {
	t       *rapid.T
	b       strings.Builder
	altsUse int // number of non-canonical alternatives actually used
	plain   int // percentage of choices that stay canonical
	lastTok string
}

// Spell returns one permitted spelling of p.
func Spell(t *rapid.T, p *Path) string {
	s, _ := SpellN(t, p)
	return s
}

// SpellN also reports how many non-canonical alternatives were used.
func SpellN(t *rapid.T, p *Path) (string, int) {
	s := &speller{t: t, plain: rapid.SampledFrom([]int{30, 60, 85}).Draw(t, "plain")}
	s.top(p)
	return s.b.String(), s.altsUse
}

func (s *speller) n(k int, l string) int {
	if k <= 1 {
		return 0
	}
	return uniform(s.t, k, l)
}

// alt reports whether to use a non-canonical alternative here.
func (s *speller) alt(l string) bool {
	if s.n(100, l) >= s.plain {
		s.altsUse++
		return true
	}
	return false
}

var wsAlts = []string{" ", "  ", "\t", "\n", "\r\n", "/**/", " /* c */ ", "/* * / */", " /*\n*/ ", "/*/ c */", "/*//*/", "/***/", "/*/**/", "/* /* */"}

// ws emits optional (or, if required, mandatory) inter-token space.
func (s *speller) ws(required bool) {
	if s.alt("ws") {
		if s.n(4, "wsgen") == 0 {
			// a comment with a generated body: any text without the terminator
			parts := []string{"*", "/", " ", "a", "\n", "é", "**", "//", "/*", "$", "\"", "\\", "* /"}
			body := ""
			for i, k := 0, s.n(6, "cmtlen"); i < k; i++ {
				body += parts[s.n(len(parts), "cmtp")]
			}
			if strings.Index(body+"*/", "*/") == len(body) {
				s.b.WriteString("/*" + body + "*/")
				return
			}
		}
		s.b.WriteString(wsAlts[s.n(len(wsAlts), "wsk")])
		return
	}
	if required {
		s.b.WriteByte(' ')
	}
}

func (s *speller) tok(t string)      { s.b.WriteString(t) }
func (s *speller) spaced(t string)   { s.ws(false); s.b.WriteString(t); s.ws(false) }
func (s *speller) kw(word string)    { s.b.WriteString(s.kwCase(word)) }
func (s *speller) kwSep(word string) { s.ws(true); s.kw(word); s.ws(true) }

// kwCase varies the case of a case-insensitive keyword.
func (s *speller) kwCase(w string) string {
	if !s.alt("kwcase") {
		return w
	}
	switch s.n(3, "kwc") {
	case 0:
		return strings.ToUpper(w)
	case 1:
		return strings.ToUpper(w[:1]) + w[1:]
	default:
		r := []byte(w)
		for i := range r {
			if s.n(2, "kwb") == 1 && r[i] >= 'a' && r[i] <= 'z' {
				r[i] -= 32
			}
		}
		return string(r)
	}
}

func (s *speller) top(p *Path) {
	s.ws(false)
	if p.Strict {
		s.kw("strict")
		s.ws(true)
	} else if s.alt("laxkw") {
		s.kw("lax")
		s.ws(true)
	}
	if p.Root.IsPred() && p.Root.Next == nil {
		s.pred(p.Root, 0)
	} else {
		s.expr(p.Root, 0)
	}
	s.ws(false)
}

// precedence levels from the documented table (loosest to tightest)
const (
	precOr = iota + 1
	precAnd
	precNot
	precCmp
	precAdd
	precMul
	precUnary
	precPrimary
)

func precOf(n *Node) int {
	switch n.K {
	case KBin:
		switch n.S {
		case "||":
			return precOr
		case "&&":
			return precAnd
		case "+", "-":
			return precAdd
		case "*", "/", "%":
			return precMul
		default:
			return precCmp
		}
	case KUn:
		if n.S == "!" {
			return precPrimary // "!(...)" is self-delimiting to its left; its operand is delimited
		}
		return precUnary
	case KRegex:
		return precCmp
	case KInt:
		if n.I < 0 {
			return precUnary
		}
	case KNum:
		if n.F < 0 || (n.F == 0 && math.Signbit(n.F)) {
			return precUnary
		}
	}
	return precPrimary
}

// expr spells n where an expr is expected. min is the loosest precedence that
// may appear unparenthesised.
func (s *speller) expr(n *Node, min int) {
	// A predicate can be an expr only with a chain, and then needs parens.
	isPredHead := n.IsPred()
	needHeadParens := n.Next != nil && (isPredHead || n.K == KInt || n.K == KNum || (n.K == KBin) || (n.K == KUn))
	if n.Next != nil {
		// chain splitting: ((head.a).b).c
		s.chainSplit(n, needHeadParens)
		return
	}
	wrap := precOf(n) < min || (isPredHead)
	if isPredHead {
		// cannot happen for well-formed trees (predicate without chain where an expr is expected)
		wrap = true
	}
	if !wrap && s.alt("redundantparens") {
		wrap = true
	}
	if wrap {
		s.tok("(")
		s.ws(false)
		s.head(n, 0)
		s.ws(false)
		s.tok(")")
		return
	}
	s.head(n, min)
}

// chainSplit spells head + chain, optionally as ((head.a).b).c
func (s *speller) chainSplit(n *Node, needHeadParens bool) {
	var accs []*Node
	for a := n.Next; a != nil; a = a.Next {
		accs = append(accs, a)
	}
	// choose split points: after k accessors close a paren
	opens := 0
	var closeAfter []bool
	for range accs {
		c := false
		closeAfter = append(closeAfter, c)
	}
	if len(accs) > 1 {
		for i := 0; i < len(accs)-1; i++ {
			if s.alt("split") {
				closeAfter[i] = true
				opens++
			}
		}
	}
	for i := 0; i < opens; i++ {
		s.tok("(")
	}
	headOnly := *n
	headOnly.Next = nil
	if needHeadParens || s.alt("headparens") {
		s.tok("(")
		s.ws(false)
		s.head(&headOnly, 0)
		s.ws(false)
		s.tok(")")
	} else {
		s.head(&headOnly, precPrimary)
	}
	for i, a := range accs {
		s.accessor(a)
		if closeAfter[i] {
			s.ws(false)
			s.tok(")")
		}
	}
}

// head spells n ignoring n.Next.
func (s *speller) head(n *Node, min int) {
	switch n.K {
	case KRoot:
		s.tok("$")
	case KCur:
		s.tok("@")
	case KLast:
		s.kw("last")
	case KTrue, KFalse, KNull:
		s.tok(n.K)
	case KVar:
		s.variable(n.S)
	case KStr:
		s.str(n.S)
	case KInt:
		s.intLit(n.I)
	case KNum:
		s.numLit(n.F)
	case KBin:
		if isArithOp(n.S) {
			p := precOf(n)
			s.expr(n.A, p)
			s.ws(true)
			s.tok(n.S)
			s.ws(true)
			s.expr(n.B, p+1)
		} else {
			s.pred(n, 0)
		}
	case KUn:
		if n.S == "!" {
			s.pred(n, 0)
			return
		}
		s.tok(n.S)
		s.ws(false)
		s.expr(n.A, precUnary)
	case KExists, KIsUnknown, KRegex:
		s.pred(n, 0)
	default:
		s.tok("<?" + n.K + ">")
	}
}

// pred spells a predicate node (without chain). min as for expr.
func (s *speller) pred(n *Node, min int) {
	wrap := precOfPred(n) < min
	if !wrap && s.alt("predparens") {
		wrap = true
	}
	if wrap {
		s.tok("(")
		s.ws(false)
		s.predBare(n)
		s.ws(false)
		s.tok(")")
		return
	}
	s.predBare(n)
}

func precOfPred(n *Node) int {
	switch n.K {
	case KBin:
		switch n.S {
		case "||":
			return precOr
		case "&&":
			return precAnd
		}
		return precCmp
	case KRegex:
		return precCmp
	case KUn:
		return precNot
	}
	return precPrimary // exists(...), (...) is unknown
}

func (s *speller) predBare(n *Node) {
	switch n.K {
	case KBin:
		switch n.S {
		case "&&", "||":
			p := precOfPred(n)
			s.pred(n.A, p)
			s.ws(false)
			s.tok(n.S)
			s.ws(false)
			s.pred(n.B, p+1)
		case "starts with":
			s.expr(n.A, precAdd)
			s.kwSep("starts")
			s.kw("with")
			s.ws(true)
			if n.B.K == KVar {
				s.variable(n.B.S)
			} else {
				s.str(n.B.S)
			}
		default:
			s.expr(n.A, precAdd)
			s.ws(false)
			op := n.S
			if op == "!=" && s.alt("neq") {
				op = "<>"
			}
			s.tok(op)
			s.ws(false)
			s.expr(n.B, precAdd)
		}
	case KUn: // !
		s.tok("!")
		s.ws(false)
		if n.A.K == KExists && !s.alt("notparens") {
			s.predBare(n.A)
			return
		}
		s.tok("(")
		s.ws(false)
		s.pred(n.A, 0)
		s.ws(false)
		s.tok(")")
	case KExists:
		s.kw("exists")
		s.ws(false)
		s.tok("(")
		s.ws(false)
		s.expr(n.A, 0)
		s.ws(false)
		s.tok(")")
	case KIsUnknown:
		s.tok("(")
		s.ws(false)
		s.pred(n.A, 0)
		s.ws(false)
		s.tok(")")
		s.ws(false)
		s.kw("is")
		s.ws(true)
		s.kw("unknown")
	case KRegex:
		s.expr(n.A, precAdd)
		s.kwSep("like_regex")
		s.str(n.S)
		if n.Flags != "" || s.alt("emptyflag") {
			s.kwSep("flag")
			s.str(n.Flags)
		}
	default:
		s.tok("<?pred " + n.K + ">")
	}
}

func (s *speller) accessor(a *Node) {
	switch a.K {
	case KKey:
		s.ws(false)
		s.tok(".")
		s.ws(false)
		s.key(a.S)
	case KAnyKey:
		s.ws(false)
		s.tok(".")
		s.ws(false)
		s.tok("*")
	case KAnyArr:
		s.ws(false)
		s.tok("[")
		s.ws(false)
		s.tok("*")
		s.ws(false)
		s.tok("]")
	case KAny:
		s.ws(false)
		s.tok(".")
		s.ws(false)
		s.tok("**")
		lv := func(v int64) {
			if v < 0 {
				s.kw("last")
			} else {
				s.intLitNonNeg(uint64(v), true)
			}
		}
		switch {
		case a.First == 0 && a.Last == -1 && !s.alt("anyexplicit"):
		case a.First == a.Last && !s.alt("anyrange"):
			s.ws(false)
			s.tok("{")
			s.ws(false)
			lv(a.First)
			s.ws(false)
			s.tok("}")
		default:
			s.ws(false)
			s.tok("{")
			s.ws(false)
			lv(a.First)
			s.kwSep("to")
			lv(a.Last)
			s.ws(false)
			s.tok("}")
		}
	case KIdx:
		s.ws(false)
		s.tok("[")
		for i, sub := range a.Subs {
			if i > 0 {
				s.tok(",")
			}
			s.ws(false)
			s.expr(sub.From, 0)
			if sub.To != nil {
				s.kwSep("to")
				s.expr(sub.To, 0)
			}
			s.ws(false)
		}
		s.tok("]")
	case KFilter:
		s.ws(false)
		s.tok("?")
		s.ws(false)
		s.tok("(")
		s.ws(false)
		s.pred(a.A, 0)
		s.ws(false)
		s.tok(")")
	case KMethod:
		s.ws(false)
		s.tok(".")
		s.ws(false)
		s.kw(a.S)
		s.ws(false)
		s.tok("(")
		s.ws(false)
		s.tok(")")
	case KDecimal:
		s.ws(false)
		s.tok(".")
		s.ws(false)
		s.kw("decimal")
		s.ws(false)
		s.tok("(")
		s.ws(false)
		if a.A != nil {
			s.signedArg(a.A.I)
			if a.B != nil {
				s.ws(false)
				s.tok(",")
				s.ws(false)
				s.signedArg(a.B.I)
			}
		}
		s.ws(false)
		s.tok(")")
	case KDT:
		s.ws(false)
		s.tok(".")
		s.ws(false)
		s.kw(a.S)
		s.ws(false)
		s.tok("(")
		s.ws(false)
		if a.A != nil {
			if a.A.K == KStr {
				s.str(a.A.S)
			} else {
				s.intLitNonNeg(uint64(a.A.I), false)
			}
			s.ws(false)
		}
		s.tok(")")
	default:
		s.tok("<?" + a.K + ">")
	}
}

func (s *speller) signedArg(v int64) {
	if v < 0 {
		s.tok("-")
		s.ws(false)
		s.intLitNonNeg(uint64(-v), false)
		return
	}
	if s.alt("plusarg") {
		s.tok("+")
		s.ws(false)
	}
	s.intLitNonNeg(uint64(v), false)
}

// ---------------------------------------------------------------------------
// literals

func (s *speller) intLit(v int64) {
	if v < 0 {
		s.tok("-")
		if s.alt("negspace") {
			s.tok(" ")
		}
		s.intLitNonNeg(uint64(-v), false)
		return
	}
	s.intLitNonNeg(uint64(v), false)
}

// intLitNonNeg spells a non-negative integer in one of the documented forms.
// decimalOnly restricts to forms every integer position accepts.
func (s *speller) intLitNonNeg(v uint64, decimalOnly bool) {
	if !s.alt("intform") {
		s.tok(strconv.FormatUint(v, 10))
		s.numEnd()
		return
	}
	var digits, prefix string
	switch s.n(4, "radix") {
	case 0:
		digits = strconv.FormatUint(v, 10)
	case 1:
		digits = strconv.FormatUint(v, 16)
		if s.n(2, "hexcase") == 1 {
			digits = strings.ToUpper(digits)
		}
		prefix = []string{"0x", "0X"}[s.n(2, "xp")]
	case 2:
		digits = strconv.FormatUint(v, 8)
		prefix = []string{"0o", "0O"}[s.n(2, "op")]
	default:
		digits = strconv.FormatUint(v, 2)
		prefix = []string{"0b", "0B"}[s.n(2, "bp")]
	}
	_ = decimalOnly
	s.tok(prefix + s.underscores(digits))
	s.numEnd()
}

// underscores inserts '_' between some successive digits.
func (s *speller) underscores(d string) string {
	if len(d) < 2 || s.n(2, "us") == 0 {
		return d
	}
	var b strings.Builder
	for i := 0; i < len(d); i++ {
		if i > 0 && s.n(3, "usat") == 0 {
			b.WriteByte('_')
		}
		b.WriteByte(d[i])
	}
	return b.String()
}

// numEnd: a number must not be glued to a following identifier character or
// '.'; callers that follow with such a token emit a separator themselves.
func (s *speller) numEnd() {}

func (s *speller) numLit(f float64) {
	neg := f < 0 || (f == 0 && math.Signbit(f))
	a := math.Abs(f)
	if neg {
		s.tok("-")
		if s.alt("negspace") {
			s.tok(" ")
		}
	}
	canon := FormatNum(a)
	if !s.alt("numform") {
		s.tok(canon)
		return
	}
	cands := []string{canon}
	// exponent forms
	for _, e := range []int{1, -1, 2, -3, 5} {
		m := strconv.FormatFloat(a/math.Pow10(e), 'f', -1, 64)
		for _, ec := range []string{"e", "E"} {
			sign := ""
			if e > 0 && s.n(2, "eplus") == 1 {
				sign = "+"
			}
			cands = append(cands, fmt.Sprintf("%s%s%s%d", m, ec, sign, e))
		}
	}
	fs := strconv.FormatFloat(a, 'f', -1, 64)
	if strings.HasPrefix(fs, "0.") {
		cands = append(cands, fs[1:]) // .5
	}
	if !strings.Contains(fs, ".") {
		cands = append(cands, fs+".", fs+".0", fs+".00", fs+"e0", fs+"E-0") // 5.  5.0
	} else {
		cands = append(cands, fs+"0", fs+"00")
	}
	c := cands[s.n(len(cands), "numcand")]
	if i := strings.IndexAny(c, "eE"); i > 0 && s.n(2, "numus") == 1 {
		c = s.underscoreMantissa(c[:i]) + c[i:]
	} else if i < 0 && s.n(2, "numus2") == 1 {
		c = s.underscoreMantissa(c)
	}
	// soundness: the spelling must denote exactly the same double
	chk := strings.ReplaceAll(c, "_", "")
	if strings.HasPrefix(chk, ".") {
		chk = "0" + chk
	}
	if g, err := strconv.ParseFloat(chk, 64); err != nil || g != a || !strings.ContainsAny(c, ".eE") {
		c = canon
	}
	s.tok(c)
}

func (s *speller) underscoreMantissa(m string) string {
	parts := strings.SplitN(m, ".", 2)
	parts[0] = s.underscores(parts[0])
	if len(parts) == 2 {
		parts[1] = s.underscores(parts[1])
		return parts[0] + "." + parts[1]
	}
	return parts[0]
}

// isIdentSafe reports whether k can be written as a bare key: the sound
// subset [A-Za-z_][A-Za-z0-9_]* plus a fixed list of Unicode letters.
func isBareIdent(k string) bool {
	if k == "" {
		return false
	}
	for i, r := range k {
		switch {
		case r == '_' || (r >= 'a' && r <= 'z') || (r >= 'A' && r <= 'Z'):
		case r >= '0' && r <= '9' && i > 0:
		case strings.ContainsRune("éüñλжあ漢𝒳", r) || isSafeLetter(r):
		default:
			return false
		}
	}
	return true
}

// isSafeLetter: letters of blocks in which every listed code point is a letter
// with the XID_Start property (so the documented identifier rule admits it at
// any position): Latin Extended-A, Greek capitals and smalls, basic Cyrillic,
// Hiragana, CJK Unified Ideographs, Hangul syllables.
func isSafeLetter(r rune) bool {
	switch {
	case r >= 0x0100 && r <= 0x017F && r != 0x0149 && r != 0x017F: // two have compatibility decompositions
		return true
	case (r >= 0x0391 && r <= 0x03A1) || (r >= 0x03A3 && r <= 0x03C9):
		return true
	case r >= 0x0400 && r <= 0x0481:
		return true
	case r >= 0x3041 && r <= 0x3096:
		return true
	case r >= 0x4E00 && r <= 0x9FA5:
		return true
	case r >= 0xAC00 && r <= 0xD7A3:
		return true
	}
	return false
}

func isBareVar(k string) bool {
	if k == "" {
		return false
	}
	for _, r := range k {
		switch {
		case r == '_' || (r >= 'a' && r <= 'z') || (r >= 'A' && r <= 'Z') || (r >= '0' && r <= '9'):
		case strings.ContainsRune("éüñλжあ漢", r) || isSafeLetter(r):
		default:
			return false
		}
	}
	return true
}

func (s *speller) key(k string) {
	if isBareIdent(k) && !s.alt("quotedkey") {
		// bare identifier, possibly with unicode escapes inside
		for _, r := range k {
			if s.alt("identesc") {
				s.tok(s.escapeRune(r, true))
			} else {
				s.b.WriteRune(r)
			}
		}
		return
	}
	s.str(k)
}

func (s *speller) variable(name string) {
	s.tok("$")
	if isBareVar(name) && !s.alt("quotedvar") {
		s.tok(name)
		return
	}
	s.str(name)
}

// str spells a double-quoted literal with per-character escape choices.
func (s *speller) str(v string) {
	s.tok(`"`)
	for _, r := range v {
		must := r == '"' || r == '\\' || r < 0x20 || r == 0x7f
		if must || s.alt("stresc") {
			s.tok(s.escapeRune(r, false))
		} else {
			s.b.WriteRune(r)
		}
	}
	s.tok(`"`)
}

// escapeRune returns one of the documented escape spellings of r.
func (s *speller) escapeRune(r rune, ident bool) string {
	var forms []string
	switch r {
	case '\b':
		forms = append(forms, `\b`)
	case '\f':
		forms = append(forms, `\f`)
	case '\n':
		forms = append(forms, `\n`)
	case '\r':
		forms = append(forms, `\r`)
	case '\t':
		forms = append(forms, `\t`)
	case '\v':
		forms = append(forms, `\v`)
	case '"':
		forms = append(forms, `\"`)
	case '\\':
		forms = append(forms, `\\`)
	}
	if r <= 0xff && r > 0 && !ident {
		forms = append(forms, fmt.Sprintf(`\x%02x`, r), fmt.Sprintf(`\x%02X`, r))
	}
	if r <= 0xffff {
		forms = append(forms, fmt.Sprintf(`\u%04x`, r), fmt.Sprintf(`\u%04X`, r))
	} else {
		h, l := utf16.EncodeRune(r)
		forms = append(forms, fmt.Sprintf(`\u%04x\u%04x`, h, l), fmt.Sprintf(`\u%04X\u%04x`, h, l))
	}
	forms = append(forms, fmt.Sprintf(`\u{%x}`, r), fmt.Sprintf(`\u{%X}`, r), fmt.Sprintf(`\u{%06x}`, r))
	if r > 0xff {
		forms = append(forms, fmt.Sprintf(`\u{%05x}`, r))
	}
	_ = unicode.MaxRune
	return forms[s.n(len(forms), "escform")]
}
