package checks

// C01 — Query results conform to SQL/JSON path semantics in lax and strict
// mode: differential against the reference model (model.go).

import (
	"encoding/json"
	"fmt"
	"os"
	"path/filepath"
	"regexp"
	"strconv"
	"strings"
	"testing"
	"time"

	"pgregory.net/rapid"
)

type modelFacts struct {
	nontrivial bool
	excluded   string
	kf         string
	orderOpen  bool
	class      string
}

var c01Ev *Ev

var checkModel = register("c01.model", func(c ExecCase) *Violation {
	v, _ := checkModelFacts(c)
	return v
})

func hasPredicate(n *Node) bool {
	return n.Has(func(x *Node) bool { return x.IsPred() || x.K == KFilter })
}

func checkModelFacts(c ExecCase) (*Violation, modelFacts) {
	var f modelFacts
	pr, err := prepare(c)
	if err != nil {
		f.excluded = "not_parsed"
		return nil, f
	}
	ev := c01Ev
	if ev == nil {
		ev = &Ev{Prop: "C01"}
	}
	var vars map[string]any
	if pr.vars != nil {
		vars = map[string]any(pr.vars)
	}
	var quirks []string
	if ev.quirk("exists_unary_sign_nonnumeric") {
		quirks = append(quirks, "D17b")
	}
	if !ev.quirk("is_unknown_swallows_hard_error") {
		quirks = append(quirks, "noD37")
	}
	mr := RunModel(pr.tree, pr.doc, c.Opts, vars, ev.quirk("subscript_drops_null"), quirks...)
	if mr.Err != nil && mr.Err.dontCare {
		f.excluded = "dont_care:" + firstWords(mr.Err.msg, 4)
		return nil, f
	}
	f.orderOpen = mr.OrderOpen
	verbose := RunQuery(pr.ctx, pr.p, pr.doc, pr.opts(false)...)
	silent := RunQuery(pr.ctx, pr.p, pr.doc, pr.opts(true)...)
	if verbose.Panic != "" || silent.Panic != "" {
		return violf("Query(%q, %s) panicked: %s%s", c.Path, c.Doc, verbose.Panic, silent.Panic), f
	}
	if mr.SawD9 && ev.quirk("datetime_vs_nondatetime_invalid") {
		// the ErrInvalid of D9 may be swallowed by an enclosing "is unknown" or exists(),
		// so the finding covers every case in which the rules compare a datetime with
		// a non-datetime item, whether or not the error surfaced
		f.kf = "D9"
		return nil, f
	}
	if mr.UsedD19 {
		f.kf = "D19"
	}
	if mr.UsedD17b {
		f.kf = "D17b"
	}
	if mr.UsedD37 {
		f.kf = "D37"
	}
	wantItems := mRenderSeq(mr.Items)
	wantClass := EOK
	if mr.Err != nil {
		wantClass = ESupp
		if mr.Err.hard {
			wantClass = EHard
		}
	}
	f.class = wantClass
	f.nontrivial = pr.tree.Root.Count() >= 4 && (len(mr.Items) > 0 || mr.Err != nil)
	at := fmt.Sprintf("Query(%q, %s, tz=%v zone=%q vars=%v)", c.Path, c.Doc, c.Opts.TZ, c.Opts.Zone, c.Opts.Vars)
	if mr.OrderOpen {
		// member order is open: only order-independent facts are compared, and only
		// for paths without predicates (short-circuits make even the presence of an
		// error depend on the order)
		if hasPredicate(pr.tree.Root) || mr.Err != nil || verbose.Class != EOK {
			f.excluded = "member_order_open_with_predicate_or_error"
			return nil, f
		}
		if got := RenderSeq(verbose.Items, true); !sameMultiset(wantItems, got) {
			return violf("%s: the documented rules give (as a multiset) %v, Query returned %v", at, wantItems, got), f
		}
		return nil, f
	}
	// verbose
	if verbose.Class != wantClass {
		why := ""
		if mr.Err != nil {
			why = " (" + mr.Err.msg + ")"
		}
		return violf("%s: the documented rules give class %s%s with items %v, Query returned %s", at, wantClass, why, wantItems, verbose), f
	}
	if wantClass == EOK {
		if got := RenderSeq(verbose.Items, true); !sameSeq(wantItems, got) {
			return violf("%s: the documented rules give %v, Query returned %v", at, wantItems, got), f
		}
	}
	// silent: the items found before the first suppressible error
	switch wantClass {
	case EHard:
		if silent.Class != EHard {
			return violf("%s with WithSilent: a non-suppressible error is prescribed (%s), Query returned %s", at, mr.Err.msg, silent), f
		}
	default:
		if silent.Class != EOK {
			return violf("%s with WithSilent: want items %v and no error, Query returned %s", at, wantItems, silent), f
		}
		if got := RenderSeq(silent.Items, true); !sameSeq(wantItems, got) {
			return violf("%s with WithSilent: the documented rules give %v (items before the first suppressible error: %v), Query returned %v", at, wantItems, mr.Err != nil, got), f
		}
	}
	return nil, f
}

func firstWords(s string, n int) string {
	out, words := "", 0
	for _, r := range s {
		if r == ' ' {
			words++
			if words >= n {
				break
			}
		}
		if r == '"' || r == '%' {
			break
		}
		out += string(r)
	}
	return out
}

// genModelCase mixes grammar-directed and document-directed generation.
func genModelCase(rt *rapid.T) (ExecCase, *Path) {
	pcfg := GenCfg{MaxNodes: 14, HardErrPct: 6}
	dcfg := DocCfg{}
	if rapid.IntRange(0, 9).Draw(rt, "directed") < 5 {
		cfg := pcfg.withDefaults()
		g := &pgen{t: rt, c: cfg}
		strict := g.chance(45, "strict")
		doc := GenDoc(rt, DocCfg{Rich: g.chance(70, "rich")}, "doc")
		opts := genOpts(rt, dcfg, cfg.VarNames, true)
		d, err := Decode(doc.Text(), opts.UseNumber)
		if err != nil {
			opts.UseNumber = true
			d = MustDecode(doc.Text(), true)
		}
		walk, reach := GenWalk(rt, d, 3, strict, "w")
		g.budget = 2 + g.n(sz(9), "size")
		var chain *Node
		switch g.choose("shape", 35, 25, 20, 20) {
		case 0: // walk + filter on the reached items + tail
			chain = appendChain(walk, &Node{K: KFilter, A: GenCondFor(rt, reach, g, "c")})
			if g.chance(50, "tail") {
				chain = appendChain(chain, g.chain(gctx{}, 1+g.n(2, "tl")))
			}
		case 1: // walk + generic tail
			chain = appendChain(walk, g.chain(gctx{}, 1+g.n(3, "tl2")))
		case 2: // predicate check expression over reached data
			cond := GenCondFor(rt, []any{d}, g, "p")
			p := &Path{Strict: strict, Root: Normalize(atToRoot(cond, 0))}
			return ExecCase{Path: p.Canon(), Doc: doc.Text(), Opts: opts}, p
		default: // arithmetic / method over reached scalars
			chain = appendChain(walk, g.chain(gctx{}, 1+g.n(2, "tl3")))
			root := &Node{K: KRoot, Next: chain}
			var top *Node
			if g.chance(50, "arith") {
				top = &Node{K: KBin, S: g.pick(arithOps, "aop"), A: root, B: g.literal()}
			} else {
				top = &Node{K: KUn, S: g.pick([]string{"-", "+"}, "sgn"), A: root}
			}
			if g.chance(50, "opchain") {
				// steps after the parenthesised operator: each emitted item must reach them
				top.Next = &Node{K: KFilter, A: &Node{K: KBin, S: g.pick(cmpOps, "fop"), A: &Node{K: KCur}, B: &Node{K: KInt, I: int64(g.n(7, "fl")) - 3}}}
				if g.chance(30, "opchain2") {
					top.Next.Next = &Node{K: KMethod, S: g.pick([]string{"abs", "type", "string", "double"}, "om")}
				}
			}
			p := &Path{Strict: strict, Root: Normalize(top)}
			return ExecCase{Path: p.Canon(), Doc: doc.Text(), Opts: opts}, p
		}
		p := &Path{Strict: strict, Root: Normalize(&Node{K: KRoot, Next: chain})}
		return ExecCase{Path: p.Canon(), Doc: doc.Text(), Opts: opts}, p
	}
	return genExecCase(rt, pcfg, dcfg)
}

// modelTableCases: a bounded sweep of short paths over a small alphabet.
func modelTableCases() []ExecCase {
	steps := []string{".a", ".b", ".*", "[*]", "[0]", "[last]", "[0 to 1]", ".**", ".**{1}", ".**{last}", ".**{1 to last}", " ? (@ > 1)", " ? (@.a == 1)", " ? (exists(@.a))", ".size()", ".type()", ".abs()", ".string()", ".double()", ".keyvalue()", ".keyvalue().value", ".floor()", ".boolean()", ".integer()", ".number()", ".bigint()", ".ceiling()", ".decimal(3,1)", ".datetime()", ".date()"}
	docs := []string{`1`, `"2015-08-01"`, `null`, `[]`, `[1,2]`, `[1,"a",null]`, `{"a":1}`, `{"a":[1,2]}`, `[{"a":1},{"a":2}]`, `[{"a":[2,3]},{"b":1}]`, `{"a":{"a":1.5}}`, `[[1,2],[3]]`, `{"a":"12"}`, `[true,"t",0]`, `{"a":-1.5,"b":null}`, `{"a":"x","b":"5"}`, `{"a":null,"b":2}`, `[[1,"x"],2]`, `[1,"x",3]`}
	var out []ExecCase
	for _, s1 := range steps {
		for _, s2 := range append([]string{""}, steps...) {
			for _, d := range docs {
				for _, mode := range []string{"", "strict "} {
					out = append(out, ExecCase{Path: mode + "$" + s1 + s2, Doc: d, Opts: Opts{TZ: true}})
				}
			}
		}
	}
	return out
}

// pgCorpusCases harvests (json, path, options) triples from the repository's
// PostgreSQL-derived regression rows (path/exec/pg_test.go). The rows' expected
// outputs come from PostgreSQL and the implementation passes them, so agreement
// of the model with the implementation on these inputs means the model
// reproduces the PostgreSQL-derived rows: the model's self-test.
func pgCorpusCases() []ExecCase {
	repo := envOr("VERIF_REPO", "/repo")
	b, err := os.ReadFile(filepath.Join(repo, "path", "exec", "pg_test.go"))
	if err != nil {
		return nil
	}
	reJSON := regexp.MustCompile("json:\\s*js\\(`([^`]*)`\\)")
	rePath := regexp.MustCompile("path:\\s*(?:`([^`]*)`|\"((?:[^\"\\\\]|\\\\.)*)\")")
	reVars := regexp.MustCompile("WithVars\\(jv\\(`([^`]*)`\\)\\)")
	var out []ExecCase
	seen := map[string]bool{}
	for _, block := range strings.Split(string(b), "test:")[1:] {
		j := reJSON.FindStringSubmatch(block)
		pm := rePath.FindStringSubmatch(block)
		if j == nil || pm == nil {
			continue
		}
		pathText := pm[1]
		if pathText == "" {
			if uq, err := strconv.Unquote(`"` + pm[2] + `"`); err == nil {
				pathText = uq
			} else {
				continue
			}
		}
		// only the options written inside this row
		row := block
		if i := strings.Index(row, "},\n\t\t{"); i >= 0 {
			row = row[:i]
		}
		c := ExecCase{Path: pathText, Doc: j[1], Opts: Opts{TZ: strings.Contains(row, "WithTZ()")}}
		if v := reVars.FindStringSubmatch(row); v != nil {
			var m map[string]json.RawMessage
			if json.Unmarshal([]byte(v[1]), &m) == nil {
				c.Opts.HasVars = true
				c.Opts.Vars = map[string]string{}
				for k, raw := range m {
					c.Opts.Vars[k] = string(raw)
				}
			}
		}
		for _, un := range []bool{false, true} {
			c.Opts.UseNumber = un
			if !seen[c.Key()] {
				seen[c.Key()] = true
				out = append(out, c)
			}
		}
	}
	return out
}

// pairTableCases: every comparison of two short sequences of mixed-type items,
// as a predicate check, as a filter and under "is unknown", in both modes. In
// strict mode every pair must be examined (an error anywhere makes the
// predicate unknown), in lax mode the first decisive pair in sequence order
// wins: the order of true, false and erroneous pairs matters.
func pairTableCases(big bool) []ExecCase {
	vals := []string{`1`, `2`, `"x"`, `null`}
	maxLen := 2
	if big {
		vals = append(vals, `true`, `[1]`, `"1"`, `1.0`)
	}
	var seqs []string
	var rec func(prefix []string, n int)
	rec = func(prefix []string, n int) {
		seqs = append(seqs, "["+strings.Join(prefix, ",")+"]")
		if n == 0 {
			return
		}
		for _, v := range vals {
			rec(append(append([]string{}, prefix...), v), n-1)
		}
	}
	rec(nil, maxLen)
	if big {
		// a few of length 3 where the decisive pair sits at each position
		seqs = append(seqs, `[1,"x",2]`, `["x",1,2]`, `[2,1,"x"]`, `[null,1,"x"]`, `[2,2,1]`, `[1,2,"x"]`)
	}
	var out []ExecCase
	for _, a := range seqs {
		for _, b := range seqs {
			doc := `{"a":` + a + `,"b":` + b + `}`
			for _, op := range cmpOps {
				for _, mode := range []string{"", "strict "} {
					cmp := "$.a[*] " + op + " $.b[*]"
					out = append(out,
						ExecCase{Path: mode + cmp, Doc: doc},
						ExecCase{Path: mode + "(" + cmp + ") is unknown", Doc: doc},
						ExecCase{Path: mode + "$ ? (@.a[*] " + op + " @.b[*]).a", Doc: doc})
					if mode != "" && len(a)+len(b) <= 14 {
						// the same predicate in the tail after .**: strict mode stays strict there (every pair is
						// examined) although structural errors are skipped. A document without objects, so that
						// the member order is not in play; .**{0} selects the root only.
						doc2 := "[" + a + "," + b + "]"
						out = append(out, ExecCase{Path: mode + "$.**{0} ? (@[0][*] " + op + " @[1][*])", Doc: doc2},
							ExecCase{Path: mode + "$.**{0} ? (exists(@[0][*] ? (@ " + op + " 1)))", Doc: doc2},
							ExecCase{Path: mode + "$.**{0} ? ((@[0][*] " + op + " @[1][*]) is unknown)", Doc: doc2})
						if op == "==" {
							// exists() over a sequence whose later items fail (non-structurally): strict mode looks at all of them
							out = append(out, ExecCase{Path: mode + "$.**{0} ? (exists(@[0][*].double()))", Doc: doc2},
								ExecCase{Path: mode + "$.**{0} ? (!exists(@[1][*].integer()))", Doc: doc2},
								ExecCase{Path: mode + "$.**{0} ? ((exists(@[0][*].abs())) is unknown)", Doc: doc2},
								ExecCase{Path: mode + "$ ? (exists(@[0][*].double()))", Doc: doc2})
						}
					}
				}
			}
		}
	}
	return out
}

// genDatetimeCmpCase: comparisons between datetime items of different types
// whose instants lie within a few hours of each other, in a context zone: the
// casts between date, timestamp and timestamptz happen in the zone of the
// context, so the answer differs from a comparison of the raw instants exactly
// when the two values are closer than the zone offset.
func genDatetimeCmpCase(rt *rapid.T) (ExecCase, *Path) {
	day := rapid.SampledFrom([]string{"2024-03-10", "2015-08-01", "2024-11-03", "2000-01-01", "2024-02-29"}).Draw(rt, "day")
	mk := func(label string) (string, string) {
		h := rapid.IntRange(-14, 38).Draw(rt, label+"h")
		d := day
		if h < 0 || h > 23 {
			// previous or next day, computed on the calendar
			tm, _ := time.Parse("2006-01-02", day)
			tm = tm.Add(time.Duration(h) * time.Hour)
			d, h = tm.Format("2006-01-02"), tm.Hour()
		}
		min := rapid.SampledFrom([]string{"00:00", "00:00", "30:00", "59:59"}).Draw(rt, label+"m")
		switch rapid.IntRange(0, 4).Draw(rt, label+"k") {
		case 0:
			return d, rapid.SampledFrom([]string{"date", "datetime"}).Draw(rt, label+"dm")
		case 1:
			return fmt.Sprintf("%sT%02d:%s", d, h, min), rapid.SampledFrom([]string{"timestamp", "datetime", "date"}).Draw(rt, label+"tm")
		case 2:
			return fmt.Sprintf("%sT%02d:%s+00:00", d, h, min), rapid.SampledFrom([]string{"timestamp_tz", "datetime", "timestamp", "date"}).Draw(rt, label+"zm")
		case 3:
			off := rapid.SampledFrom([]string{"+05:30", "-05:00", "-04:00", "+10:00", "-12:00", "+14:00"}).Draw(rt, label+"off")
			return fmt.Sprintf("%sT%02d:%s%s", d, h, min, off), rapid.SampledFrom([]string{"timestamp_tz", "datetime"}).Draw(rt, label+"om")
		default:
			return fmt.Sprintf("%sT%02d:%s", d, h, min), "timestamp"
		}
	}
	as, am := mk("a")
	bs, bm := mk("b")
	op := rapid.SampledFrom(cmpOps).Draw(rt, "op")
	strict := rapid.IntRange(0, 3).Draw(rt, "strict") == 0
	mode := ""
	if strict {
		mode = "strict "
	}
	var text string
	form := rapid.IntRange(0, 3).Draw(rt, "form")
	switch form {
	case 3:
		// existential over the pairs of a sequence: an earlier pair that needs a time zone
		// (non-suppressible without WithTZ) is not hidden by a later pair that satisfies the operator
		text = fmt.Sprintf("%s$[*].datetime() %s %q.datetime()", mode, op, bs)
	case 0:
		text = fmt.Sprintf("%s$[*] ? (@.%s() %s %q.%s())", mode, am, op, bs, bm)
	case 1:
		text = fmt.Sprintf("%s$[0].%s() %s $[1].%s()", mode, am, op, bm)
	default:
		text = fmt.Sprintf("%s$[*] ? (%q.%s() %s @.%s())", mode, bs, bm, op, am)
	}
	zs := []string{"", "UTC", "+05:30", "-12:00", "America/New_York", "-05:00", "+10:00", "Australia/Sydney"}
	c := ExecCase{Path: text, Doc: fmt.Sprintf("[%q,%q]", as, bs), Opts: Opts{TZ: rapid.IntRange(0, 9).Draw(rt, "tz") < 8, Zone: rapid.SampledFrom(zs).Draw(rt, "zone")}}
	if form == 3 {
		cs, _ := mk("c")
		c.Doc = fmt.Sprintf("[%q,%q,%q]", as, cs, bs)
		c.Opts.TZ = rapid.Bool().Draw(rt, "tz3")
	}
	pr, err := prepare(c)
	if err != nil {
		rt.Fatalf("harness: %q does not parse: %v", text, err)
	}
	return c, pr.tree
}

// stressDocs: a document whose keys the "context stress" generator uses, so
// that nested filters, subscripts with last / @ / $ and exists() guards all
// reach data; the two rows differ in every field that a leaked binding could
// confuse.
var stressDocs = []string{
	`{"rows":[{"o":{"ok":true,"arr":[10,20,30],"pick":2,"n":[0,1]},"pick":1,"arr":[1,2,3,4],"n":[2],"s":"ab"},{"o":{"ok":false,"arr":[40,50],"pick":0,"n":[1]},"pick":0,"arr":[5,6],"n":[0,1,1],"s":"b"}],"i":[1,2],"n":1,"pick":3,"arr":[7,8,9],"p":["a"],"q":"a"}`,
	`{"rows":[{"o":{"ok":true,"arr":[1],"pick":0,"n":[0]},"pick":2,"arr":["x",2,3],"n":[1,"x"],"s":"abc"}],"i":[0],"n":2,"pick":0,"arr":[1,"x"],"p":["ab","x"],"q":"ab"}`,
}

func genStressCase(rt *rapid.T) (ExecCase, *Path) {
	cfg := GenCfg{MaxNodes: 16, HardErrPct: 3, NoDatetime: true, NoRegex: true, NoDecimal: true, NoKeyvalue: true, NoAny: true, NoWildKey: true,
		Keys: []string{"rows", "o", "ok", "arr", "pick", "n", "i", "s", "arr", "pick", "n"}, VarNames: []string{"p", "q", "n"},
		Strs: []string{"a", "ab", "b", "x"}, Ints: []int64{0, 1, 2, 3}, Nums: []float64{0.5, 1.5}}.withDefaults()
	g := &pgen{t: rt, c: cfg}
	g.budget = 4 + g.n(sz(12), "size")
	strict := g.chance(35, "strict")
	// $.rows[*] ? (<cond over @ with nested filters and computed subscripts>) <tail>
	cx := gctx{inFilter: true}
	// subscripts that depend on the bindings in force: @ (the row, not the item a
	// nested filter was applied to), $, last, variables
	sbound := func() *Node {
		key := func(root string, ks ...string) *Node {
			n := &Node{K: root}
			cur := n
			for _, k := range ks {
				cur.Next = &Node{K: KKey, S: k}
				cur = cur.Next
			}
			return n
		}
		switch g.choose("sbound", 30, 12, 10, 8, 8, 8, 8, 16) {
		case 0:
			return key(KCur, "pick")
		case 1:
			return key(KRoot, "pick")
		case 2:
			return key(KCur, "o", "pick")
		case 3:
			return &Node{K: KLast}
		case 4:
			return &Node{K: KVar, S: "n"}
		case 5:
			return &Node{K: KBin, S: "-", A: &Node{K: KLast}, B: key(KCur, "pick")}
		case 6:
			n := key(KCur, "n")
			n.Next.Next = &Node{K: KIdx, Subs: []Sub{{From: &Node{K: KInt, I: 0}}}}
			return n
		default:
			return g.bound(cx)
		}
	}
	var cond *Node
	switch g.choose("shape", 30, 25, 25, 20) {
	case 3:
		// an operand rooted at $ that depends on the row through a subscript: it is a different
		// sequence for every row, on whichever side of the comparison it stands
		rootDep := &Node{K: KRoot, Next: &Node{K: KKey, S: g.pick([]string{"arr", "i", "p"}, "rk"), Next: &Node{K: KIdx, Subs: []Sub{{From: sbound()}}}}}
		own := &Node{K: KCur, Next: &Node{K: KKey, S: g.pick([]string{"pick", "s", "arr"}, "ok"), Next: g.chain(gctx{}, g.n(2, "ol"))}}
		if g.chance(50, "side") {
			cond = &Node{K: KBin, S: g.pick(cmpOps, "rop"), A: own, B: rootDep}
		} else {
			cond = &Node{K: KBin, S: g.pick(cmpOps, "rop"), A: rootDep, B: own}
		}
	case 0:
		cond = g.pred(cx)
	case 1:
		// a nested filter followed, in the same chain, by a subscript that uses the outer bindings
		inner := &Node{K: KCur, Next: &Node{K: KKey, S: "o", Next: &Node{K: KFilter, A: g.pred(cx), Next: &Node{K: KKey, S: "arr", Next: &Node{K: KIdx, Subs: []Sub{{From: sbound()}}}}}}}
		cond = &Node{K: KBin, S: g.pick(cmpOps, "cop"), A: inner, B: &Node{K: KInt, I: []int64{10, 20, 30, 40, 50}[g.n(5, "cv")]}}
	default:
		// exists() guard with its own subscript inside a bound, then last / @ again
		guard := &Node{K: KInt, I: 0, Next: &Node{K: KFilter, A: &Node{K: KExists, A: &Node{K: KRoot, Next: &Node{K: KKey, S: "rows", Next: &Node{K: KIdx, Subs: []Sub{{From: &Node{K: KInt, I: int64(g.n(2, "gr"))}}}, Next: &Node{K: KKey, S: g.pick([]string{"arr", "n", "s", "zz"}, "gk"), Next: g.chain(gctx{}, g.n(2, "gl"))}}}}}}}
		idx := &Node{K: KIdx, Subs: []Sub{{From: guard, To: sbound()}}}
		if g.chance(50, "list") {
			idx = &Node{K: KIdx, Subs: []Sub{{From: guard}, {From: sbound()}}}
		}
		cond = &Node{K: KBin, S: g.pick(cmpOps, "cop2"), A: &Node{K: KCur, Next: &Node{K: KKey, S: "arr", Next: idx}}, B: g.literal()}
	}
	root := &Node{K: KRoot, Next: &Node{K: KKey, S: "rows", Next: &Node{K: KAnyArr, Next: &Node{K: KFilter, A: cond}}}}
	if g.chance(50, "tail") {
		root.chainEnd().Next = g.chain(gctx{}, 1+g.n(2, "tl"))
	}
	p := &Path{Strict: strict, Root: Normalize(root)}
	doc := stressDocs[g.n(len(stressDocs), "doc")]
	opts := Opts{UseNumber: g.chance(50, "num"), HasVars: true, Vars: map[string]string{"p": `["a"]`, "q": `"a"`, "n": `1`}}
	if g.chance(30, "pvar") {
		opts.Vars["p"] = `["ab","b"]`
	}
	return ExecCase{Path: p.Canon(), Doc: doc, Opts: opts}, p
}

func TestC01(t *testing.T) {
	ev := newEv(t, "C01")
	c01Ev = ev
	ev.replayTier(t)
	record := func(class string, c ExecCase, f modelFacts, kinds []string) {
		ev.Eval(c.Key(), f.nontrivial && f.excluded == "")
		switch {
		case f.excluded != "":
			ev.Excluded(f.excluded)
			ev.Label("excluded")
		case f.orderOpen:
			ev.Label("compared_as_multiset")
		default:
			ev.Label("compared_exactly:" + f.class)
		}
		if f.kf != "" {
			ev.KFCase(f.kf)
		}
		for _, k := range kinds {
			ev.Label("node:" + k)
		}
		if f.excluded == "not_parsed" {
			ev.Sample("not_parsed", c)
		}
		ev.Sample(class+":"+f.class, c)
	}
	t.Run("two_step_table", func(t *testing.T) {
		b := ev.enum(t)
		cs := modelTableCases()
		for i, c := range cs {
			if !mine(i) {
				continue
			}
			v, f := checkModelFacts(c)
			record("table", c, f, nil)
			if !b.Check("c01.model", c, v) {
				return
			}
		}
		ev.Exhaustive("all_paths_of_one_or_two_steps_by_documents_by_mode", int64(len(cs)))
	})
	if thorough() {
		t.Run("three_step_table", func(t *testing.T) {
			b := ev.enum(t)
			steps := []string{".a", ".*", "[*]", "[0]", "[last]", "[0 to 1]", ".**", ".**{1}", " ? (@ > 1)", " ? (@.a == 1)", " ? (exists(@.a))", ".size()", ".type()", ".abs()", ".double()", ".keyvalue().value", ".string()", ".integer()"}
			docs := []string{`[1,2]`, `[1,"a",null]`, `{"a":[1,2]}`, `[{"a":1},{"a":2}]`, `[{"a":[2,3]},{"b":1}]`, `{"a":{"a":1.5}}`, `[[1,2],[3]]`, `{"a":"12"}`, `[[1,"x"],2]`, `{"a":null,"b":2}`}
			i := 0
			for _, s1 := range steps {
				for _, s2 := range steps {
					for _, s3 := range steps {
						for _, d := range docs {
							for _, mode := range []string{"", "strict "} {
								i++
								if !mine(i) {
									continue
								}
								c := ExecCase{Path: mode + "$" + s1 + s2 + s3, Doc: d, Opts: Opts{TZ: true}}
								v, f := checkModelFacts(c)
								record("table3", c, f, nil)
								if !b.Check("c01.model", c, v) {
									return
								}
							}
						}
					}
				}
			}
			ev.Exhaustive("all_paths_of_three_steps_over_18_step_kinds_by_documents_by_mode", int64(i))
		})
	}
	t.Run("postgres_regression_inputs", func(t *testing.T) {
		b := ev.enum(t)
		cs := pgCorpusCases()
		for i, c := range cs {
			if !mine(i) {
				continue
			}
			v, f := checkModelFacts(c)
			record("pg_corpus", c, f, nil)
			if !b.Check("c01.model", c, v) {
				return
			}
		}
		ev.Exhaustive("inputs_of_the_postgres_derived_regression_rows", int64(len(cs)))
		if len(cs) == 0 {
			ev.Note("path/exec/pg_test.go not found: the PostgreSQL-derived inputs were not replayed")
		}
	})
	t.Run("error_precedence_table", func(t *testing.T) {
		// every raise site, suppressible and not, in every operand position (the table C08 compares silent and
		// non-silent runs on): here the rules decide WHICH error comes out, e.g. the unknown variable in the upper
		// bound of strict $[9 to $missing] and not the lower bound that is out of range
		b := ev.enum(t)
		cs := hardErrorCases()
		for i, c := range cs {
			if !mine(i) {
				continue
			}
			v, f := checkModelFacts(c)
			record("error_precedence_table", c, f, nil)
			if !b.Check("c01.model", c, v) {
				return
			}
		}
		ev.Exhaustive("raise_sites_by_operand_position_by_document_by_mode", int64(len(cs)))
	})
	t.Run("pair_table", func(t *testing.T) {
		b := ev.enum(t)
		cs := pairTableCases(thorough())
		for i, c := range cs {
			if !mine(i) {
				continue
			}
			v, f := checkModelFacts(c)
			record("pair_table", c, f, nil)
			if !b.Check("c01.model", c, v) {
				return
			}
		}
		ev.Exhaustive("all_comparisons_of_two_short_mixed_sequences_by_form_by_mode", int64(len(cs)))
	})
	ev.rapidProp(t, "datetime_compare", func(rt *rapid.T) {
		c, p := genDatetimeCmpCase(rt)
		v, f := checkModelFacts(c)
		record("datetime_compare", c, f, nodeKinds(p.Root))
		ev.Check(rt, "c01.model", c, v)
	})
	ev.rapidProp(t, "context_stress", func(rt *rapid.T) {
		c, p := genStressCase(rt)
		v, f := checkModelFacts(c)
		record("context_stress", c, f, nodeKinds(p.Root))
		ev.Check(rt, "c01.model", c, v)
	})
	ev.rapidProp(t, "random", func(rt *rapid.T) {
		c, p := genModelCase(rt)
		v, f := checkModelFacts(c)
		record("random", c, f, nodeKinds(p.Root))
		ev.Check(rt, "c01.model", c, v)
	})
}
