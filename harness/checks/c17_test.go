package checks

// C17 — datetime methods parse, cast and compare by the time-zone rules.

import (
	"encoding/json"
	"fmt"
	"strconv"
	"strings"
	"sync"
	"testing"
	"time"

	"github.com/theory/sqljson/path/exec"
	"github.com/theory/sqljson/path/types"
	"pgregory.net/rapid"
)

// DTCase: a path over string variables $a, $b under a zone configuration.
type DTCase struct {
	Path string `json:"path"`
	A    string `json:"a"`
	B    string `json:"b,omitempty"`
	TZ   bool   `json:"tz,omitempty"`
	Zone string `json:"zone,omitempty"`
}

type dtFacts struct {
	class    string
	excluded bool
	d9       bool
}

var c17Ev *Ev

var checkDT = register("c17.datetime", func(c DTCase) *Violation {
	v, _ := checkDTFacts(c)
	return v
})

func runDT(c DTCase) (Outcome, ModelResult, bool) {
	p, err, pan := ParseSafe(c.Path)
	if err != nil || pan != "" {
		return Outcome{}, ModelResult{}, false
	}
	o := Opts{TZ: c.TZ, Zone: c.Zone}
	vars := map[string]any{"a": c.A, "b": c.B, "s": []any{c.A, c.B}, "r": []any{c.B, c.A}}
	mr := RunModel(PathFromAST(p.AST), nil, o, vars, false)
	opts := []exec.Option{exec.WithVars(exec.Vars(vars))}
	if c.TZ {
		opts = append(opts, exec.WithTZ())
	}
	got := RunQuery(o.Ctx(), p, nil, opts...)
	return got, mr, true
}

func checkDTFacts(c DTCase) (*Violation, dtFacts) {
	var f dtFacts
	got, mr, ok := runDT(c)
	if !ok {
		f.excluded = true
		return nil, f
	}
	if mr.Err != nil && mr.Err.dontCare {
		f.excluded = true
		return nil, f
	}
	at := fmt.Sprintf("Query(%q) with a=%q b=%q WithTZ=%v zone=%q", c.Path, c.A, c.B, c.TZ, c.Zone)
	if got.Panic != "" {
		return violf("%s panicked: %s", at, got.Panic), f
	}
	if mr.SawD9 {
		ev := c17Ev
		if ev == nil {
			ev = &Ev{Prop: "C17"}
		}
		if ev.quirk("datetime_vs_nondatetime_invalid") {
			f.d9 = true
			return nil, f
		}
	}
	f.class = got.Class
	wantClass := EOK
	if mr.Err != nil {
		wantClass = ESupp
		if mr.Err.hard {
			wantClass = EHard
		}
	}
	if got.Class != wantClass {
		why := ""
		if mr.Err != nil {
			why = " (" + mr.Err.msg + ")"
		}
		return violf("%s: the time-zone rules give class %s%s and %v, Query returned %s", at, wantClass, why, mRenderSeq(mr.Items), got), f
	}
	// a non-suppressible zone error must survive WithSilent, every other rejection must vanish
	if p2, perr, _ := ParseSafe(c.Path); perr == nil {
		o := Opts{TZ: c.TZ, Zone: c.Zone}
		sopts := []exec.Option{exec.WithVars(exec.Vars{"a": c.A, "b": c.B, "s": []any{c.A, c.B}, "r": []any{c.B, c.A}}), exec.WithSilent()}
		if c.TZ {
			sopts = append(sopts, exec.WithTZ())
		}
		si := RunQuery(o.Ctx(), p2, nil, sopts...)
		if si.Panic == "" && !isD9(si.Err) {
			if wantClass == EHard && si.Class != EHard {
				return violf("%s: the non-suppressible error (%s) must survive WithSilent, got %s", at, mr.Err.msg, si), f
			}
			if wantClass != EHard && si.Class != EOK {
				return violf("%s with WithSilent returned %s", at, si), f
			}
		}
	}
	if wantClass == EOK {
		if w, g := mRenderSeq(mr.Items), RenderSeq(got.Items, true); !sameSeq(w, g) {
			return violf("%s: the time-zone rules give %v, Query returned %v", at, w, g), f
		}
	}
	return nil, f
}

var dtStrings = []string{
	"2015-08-01", "2000-02-29", "0001-01-01", "9999-12-31", "1999-12-31", "2015-08-02",
	"12:34:56", "00:00:00", "23:59:59.999999", "12:34:56.789", "12:34:56.7891234", "08:04:56",
	"12:34:56+05:30", "12:34:56Z", "12:34:56-12", "00:00:00+14:00", "12:34:56.5-04", "07:04:56+00", "12:34:56+00:00", "18:04:56+05:30",
	"2015-08-01T12:34:56", "2015-08-01 12:34:56.789", "1999-12-31T23:59:59.999999", "2000-01-01T00:00:00", "2015-11-01T01:30:00", "2015-03-08T02:30:00", "2015-08-01T00:00:00", "2015-08-01T23:59:59.9999995",
	"2015-08-01T12:34:56+05:30", "2015-08-01 12:34:56Z", "2015-08-01T12:34:56-04", "2015-08-01T00:00:00+00:00", "2015-08-02T00:00:00-04:00", "2015-08-01T23:59:59.999999+14:00", "2015-08-01T12:34:56.123456789+01", "2015-08-01T04:00:00Z", "2015-08-01T07:04:56Z",
	"2015-11-01T01:30:00-04:00", "2015-11-01T01:30:00-05:00", "2015-11-01T06:30:00Z", "2015-03-08T03:30:00-04:00", "2015-03-08T01:30:00-05:00", "2015-03-08T07:30:00Z", "2015-11-01T02:30:00", "2015-03-08T03:30:00",
	"abc", "", "2015-02-30", "12:34", "2015-08-01T12:34", "20150801",
	// the instant of 12:34:56+05:30 again, with offsets less than an hour away from it and from each other
	"12:04:56+05:00", "12:49:56+05:45", "07:19:56+00:15", "06:49:56-00:15", "2015-08-01T12:04:56+05:00", "2015-08-01T12:49:56+05:45",
}

// dtEast: dates and instants around the 2023 DST transitions of Australia/Sydney (and
// Pacific/Auckland), which happen before UTC midnight of the local transition day, and
// instants a fraction of a second after a midnight.
var dtEast = []string{
	"2023-10-01", "2023-09-30", "2023-10-02", "2023-10-01T00:00:00", "2023-10-01T02:30:00", "2023-10-01T03:00:00", "2023-09-30T16:00:00Z", "2023-09-30T13:00:00Z", "2023-09-30T14:00:00+00:00", "2023-09-30T15:59:59.999999Z",
	"2023-10-01T00:00:00+10:00", "2023-10-01T00:00:00+11:00", "2023-04-02", "2023-04-02T02:30:00", "2023-04-01T15:30:00Z", "2023-04-01T16:30:00Z", "2023-04-02T00:00:00+11:00", "2023-04-02T00:00:00+10:00",
	"2023-09-24", "2023-09-23T12:00:00Z", "2023-09-24T00:00:00+12:00", "2023-09-24T00:00:00+13:00", "2023-09-24T02:30:00",
	"2024-03-10", "2024-03-10T00:00:00.25", "2024-03-10T00:00:00.999999", "2024-03-10T00:00:00", "2024-03-10T00:00:00.000001", "2024-03-09T23:59:59.75", "2024-03-10T00:00:00.25Z", "2024-03-10T05:00:00.5Z",
	"12:34:56+05:60", "12:34:56+24", "12:34:56+16", "12:34:56+15:59", "12:34:56-15:59", "12:34:56-16:00", "2023-08-15 12:34:56-24:60", "2023-08-15T12:34:56+15:00", "2023-08-15T12:34:56+05:99", "2023-08-15T12:34:56-15",
	"23:59:59.7+05:00", "23:59:59.4+05:00", "00:00:00+05:00", "23:59:59.7", "23:59:59.9999996", "2024-03-10T23:59:59.7", "2024-03-10T23:59:59.9999996+01:00",
}

// checkProcessZone: the zone of the process is no input of a query. (Not safe for concurrent use: it
// assigns time.Local; the C17 tables run sequentially.)
var checkProcessZone = register("c17.processzone", func(c DTCase) *Violation {
	saved := time.Local
	defer func() { time.Local = saved }()
	var first string
	for _, local := range []string{"UTC", "America/New_York", "Australia/Sydney"} {
		loc, err := time.LoadLocation(local)
		if err != nil {
			return violf("harness: %v", err)
		}
		time.Local = loc
		got, _, ok := runDT(c)
		time.Local = saved
		if !ok {
			return nil
		}
		r := got.String()
		if first == "" {
			first = r
		} else if r != first {
			return violf("Query(%q) with a=%q zone=%q returns %s when the zone of the process is UTC and %s when it is %s: the zone of the process is not an input of the query", c.Path, c.A, c.Zone, first, r, local)
		}
	}
	return nil
})

// checkParseTimeCase: the exported types.ParseTime(ctx, s, precision) rounds as the path method of the value's own
// type does (whose results the time-zone model decides): one rounding rule, wherever it is implemented.
var checkParseTimeCase = register("c17.parsetime", func(c DTCase) *Violation {
	for p := 0; p <= 7; p++ {
		ctx := Opts{TZ: c.TZ, Zone: c.Zone}.Ctx()
		var v types.DateTime
		var ok bool
		pan := ""
		func() {
			defer func() {
				if r := recover(); r != nil {
					pan = fmt.Sprint(r)
				}
			}()
			v, ok = types.ParseTime(ctx, c.A, min(p, 6))
		}()
		if pan != "" {
			return violf("types.ParseTime(%q, %d) panicked: %s", c.A, p, pan)
		}
		if !ok {
			return nil
		}
		m := map[string]string{"*types.Time": "time", "*types.TimeTZ": "time_tz", "*types.Timestamp": "timestamp", "*types.TimestampTZ": "timestamp_tz"}[fmt.Sprintf("%T", v)]
		if m == "" {
			return nil // a date has no fractional seconds
		}
		got, _, rok := runDT(DTCase{Path: fmt.Sprintf("$a.%s(%d)", m, p), A: c.A, TZ: c.TZ, Zone: c.Zone})
		if !rok || got.Class != EOK || len(got.Items) != 1 {
			return violf("types.ParseTime(%q, %d) returns the %s %s, but Query($a.%s(%d)) returns %s", c.A, p, m, v, m, p, got)
		}
		if w, isDT := got.Items[0].(types.DateTime); !isDT || fmt.Sprint(w) != fmt.Sprint(v) {
			return violf("types.ParseTime(%q, %d) returns %s, but the path method $a.%s(%d) returns %s: the two round differently", c.A, min(p, 6), v, m, p, Render(got.Items[0], false))
		}
	}
	return nil
})

var checkStringBackCase = register("c17.stringback", func(c DTCase) *Violation { return checkStringBack(c) })

// checkStringBack: x.string() converted back with the method matching x's type is equal to x.
func checkStringBack(c DTCase) *Violation {
	if len(c.A) > 4 && c.A[4] == '-' && strings.Contains(c.Zone, "/") {
		if y, err := strconv.Atoi(c.A[:4]); err == nil && y < 1900 {
			// local mean time: the zone offset has seconds, which the documented output
			// format (-07:00) does not print; not a value this relation can speak about
			return nil
		}
	}
	typ, _, ok := runDT(DTCase{Path: c.Path + ".type()", A: c.A, TZ: c.TZ, Zone: c.Zone})
	if !ok || typ.Class != EOK || len(typ.Items) != 1 {
		return nil // the cast itself is rejected (c17.datetime decides whether rightly)
	}
	m2 := map[string]string{"date": "date", "time without time zone": "time", "time with time zone": "time_tz", "timestamp without time zone": "timestamp", "timestamp with time zone": "timestamp_tz"}[fmt.Sprint(typ.Items[0])]
	if m2 == "" {
		return violf("%s with a=%q has type %v", c.Path, c.A, typ.Items[0])
	}
	rel := fmt.Sprintf("%s.string().%s() == %s", c.Path, m2, c.Path)
	got, _, ok := runDT(DTCase{Path: rel, A: c.A, TZ: c.TZ, Zone: c.Zone})
	if !ok {
		return violf("harness: %q does not parse", rel)
	}
	if got.Panic != "" || got.Class != EOK || len(got.Items) != 1 || got.Items[0] != true {
		str, _, _ := runDT(DTCase{Path: c.Path + ".string()", A: c.A, TZ: c.TZ, Zone: c.Zone})
		return violf("%s with a=%q zone=%q: the value prints as %v, but converting that string back with .%s() does not give an equal value: %s", rel, c.A, c.Zone, RenderSeq(str.Items, false), m2, got)
	}
	return nil
}

var dtMethods = []string{"datetime", "date", "time", "time_tz", "timestamp", "timestamp_tz"}

func dtGrid() []DTCase {
	var out []DTCase
	zonesTZ := []struct {
		tz   bool
		zone string
	}{{false, ""}, {true, ""}, {true, "UTC"}, {true, "+05:30"}, {true, "-12:00"}, {true, "America/New_York"}, {false, "America/New_York"}}
	for _, s := range dtStrings {
		for _, z := range zonesTZ {
			for _, m := range dtMethods {
				out = append(out, DTCase{Path: "$a." + m + "()", A: s, TZ: z.tz, Zone: z.zone},
					DTCase{Path: "$a." + m + "().type()", A: s, TZ: z.tz, Zone: z.zone},
					DTCase{Path: "$a." + m + "().string()", A: s, TZ: z.tz, Zone: z.zone})
				if m != "datetime" && m != "date" {
					for _, p := range []int{0, 1, 2, 3, 5, 6, 7, 9, 12} {
						out = append(out, DTCase{Path: fmt.Sprintf("$a.%s(%d)", m, p), A: s, TZ: z.tz, Zone: z.zone})
					}
				}
				// cast chains through the canonical text
				out = append(out, DTCase{Path: "$a.datetime().string()." + m + "()", A: s, TZ: z.tz, Zone: z.zone})
			}
		}
	}
	// exact half-way fractions at every precision (round half up)
	for prec := 0; prec <= 6; prec++ {
		for j := 0; j < 100; j++ {
			frac := fmt.Sprintf("%0*d5", prec, j%pow10(prec))
			if prec == 0 {
				frac = "5"
			}
			out = append(out,
				DTCase{Path: fmt.Sprintf("$a.time(%d)", prec), A: "12:00:00." + frac},
				DTCase{Path: fmt.Sprintf("$a.timestamp(%d).string()", prec), A: "2015-08-01T10:20:30." + frac},
				DTCase{Path: fmt.Sprintf("$a.timestamp_tz(%d)", prec), A: "2015-08-01T10:20:30." + frac + "Z", TZ: true})
			if prec == 0 {
				break
			}
		}
	}
	out = append(out, DTCase{Path: `$a.datetime("HH24:MI")`, A: "12:34"}, DTCase{Path: `$a.time(2147483648)`, A: "12:34:56"}, DTCase{Path: `$a.time(4294967297)`, A: "12:34:56.789"}, DTCase{Path: `$a.timestamp_tz(4294967296)`, A: "2015-08-01T12:34:56.789Z", TZ: true}, DTCase{Path: `$a.time_tz(8589934594)`, A: "12:34:56.789+01"}, DTCase{Path: `$a.timestamp(4294967302)`, A: "2015-08-01T12:34:56.1234567"}, DTCase{Path: `$a.time(2147483647)`, A: "12:34:56.1234567"}, DTCase{Path: `$a.timestamp(2147483647)`, A: "2015-08-01T12:34:56.1234567"}, DTCase{Path: `$a.time_tz(2147483647)`, A: "12:34:56.1234567+01"}, DTCase{Path: `$a.timestamp_tz(99999999999)`, A: "2015-08-01T12:34:56Z", TZ: true})
	return out
}

// dtCompareCases: all ordered pairs x six operators x zone configurations.
func dtCompareCases(full bool) []DTCase {
	var out []DTCase
	sub := dtStrings[:45]
	zonesTZ := []struct {
		tz   bool
		zone string
	}{{false, ""}, {true, "UTC"}, {true, "+05:30"}, {true, "America/New_York"}}
	if !full {
		zonesTZ = zonesTZ[:3:3]
		zonesTZ = append(zonesTZ, struct {
			tz   bool
			zone string
		}{true, "America/New_York"})
	}
	for _, a := range sub {
		for _, b := range sub {
			for _, z := range zonesTZ {
				for _, op := range cmpOps {
					out = append(out, DTCase{Path: "$a.datetime() " + op + " $b.datetime()", A: a, B: b, TZ: z.tz, Zone: z.zone})
				}
			}
		}
	}
	return out
}

// CoherenceCase: comparing two datetimes gives the same answer as comparing
// them after explicit casts to the common type; antisymmetry.
var checkDTCoherence = register("c17.coherence", func(c DTCase) *Violation {
	ask := func(path string) (string, bool) {
		cc := c
		cc.Path = path
		got, _, ok := runDT(cc)
		if !ok || got.Panic != "" {
			return "", false
		}
		if got.Class != EOK {
			return got.Class, true
		}
		if len(got.Items) != 1 {
			return "?", true
		}
		return Render(got.Items[0], false), true
	}
	typ := func(v string) string {
		cc := c
		cc.Path, cc.A = "$a.datetime().type()", v
		got, _, ok := runDT(cc)
		if !ok || got.Class != EOK || len(got.Items) != 1 {
			return ""
		}
		s, _ := got.Items[0].(string)
		return s
	}
	ta, tb := typ(c.A), typ(c.B)
	if ta == "" || tb == "" {
		return nil
	}
	// the common type of a cross-type comparison
	common := map[[2]string]string{
		{"date", "timestamp without time zone"}: "timestamp", {"timestamp without time zone", "date"}: "timestamp",
		{"date", "timestamp with time zone"}: "timestamp_tz", {"timestamp with time zone", "date"}: "timestamp_tz",
		{"timestamp without time zone", "timestamp with time zone"}: "timestamp_tz", {"timestamp with time zone", "timestamp without time zone"}: "timestamp_tz",
		{"time without time zone", "time with time zone"}: "time_tz", {"time with time zone", "time without time zone"}: "time_tz",
	}
	for _, op := range cmpOps {
		direct, ok := ask("$a.datetime() " + op + " $b.datetime()")
		if !ok {
			return nil
		}
		// antisymmetry: a op b == b op' a
		swapOp := map[string]string{"==": "==", "!=": "!=", "<": ">", "<=": ">=", ">": "<", ">=": "<="}[op]
		cc := c
		cc.A, cc.B = c.B, c.A
		cc.Path = "$a.datetime() " + swapOp + " $b.datetime()"
		got, _, ok2 := runDT(cc)
		if ok2 && got.Panic == "" {
			sw := got.Class
			if got.Class == EOK && len(got.Items) == 1 {
				sw = Render(got.Items[0], false)
			}
			if sw != direct {
				return violf("%q %s %q = %s but %q %s %q = %s (WithTZ=%v zone=%q): not antisymmetric", c.A, op, c.B, direct, c.B, swapOp, c.A, sw, c.TZ, c.Zone)
			}
		}
		m, cross := common[[2]string{ta, tb}]
		if !cross || !c.TZ {
			continue
		}
		if (m == "time_tz") && c.Zone != "" && c.Zone != "UTC" && c.Zone[0] != '+' && c.Zone[0] != '-' {
			continue // depends on today's date under a named zone
		}
		cast, ok := ask("$a." + m + "() " + op + " $b." + m + "()")
		if !ok {
			continue
		}
		if cast != direct {
			return violf("%q %s %q compared directly gives %s, after explicit casts to %s gives %s (WithTZ, zone=%q)", c.A, op, c.B, direct, m, cast, c.Zone)
		}
	}
	return nil
})

func TestC17(t *testing.T) {
	ev := newEv(t, "C17")
	c17Ev = ev
	ev.replayTier(t)
	runTable := func(name, check string, cs []DTCase, f func(DTCase) (*Violation, dtFacts)) {
		t.Run(name, func(t *testing.T) {
			b := ev.enum(t)
			for i, c := range cs {
				if !mine(i) {
					continue
				}
				v, facts := f(c)
				key, _ := json.Marshal(c)
				nontriv := !facts.excluded && (c.Zone != "" || c.B != "" || c.TZ)
				ev.Eval(string(key), nontriv)
				if facts.excluded {
					ev.Excluded("left_open_or_not_parsed")
				} else {
					ev.Label(name + ":" + facts.class)
				}
				if facts.d9 {
					ev.KFCase("D9")
				}
				ev.Sample(name+":"+facts.class, c)
				if !b.Check(check, c, v) {
					return
				}
			}
			ev.Exhaustive(name, int64(len(cs)))
		})
	}
	runTable("methods_by_string_by_precision_by_zone", "c17.datetime", dtGrid(), checkDTFacts)
	runTable("comparison_pairs_by_operator_by_zone", "c17.datetime", dtCompareCases(thorough()), checkDTFacts)
	var coh []DTCase
	for _, a := range dtStrings[:45] {
		for _, b := range dtStrings[:45] {
			for _, z := range []string{"UTC", "+05:30", "-12:00", "America/New_York"} {
				coh = append(coh, DTCase{A: a, B: b, TZ: true, Zone: z})
			}
			coh = append(coh, DTCase{A: a, B: b})
		}
	}
	// one instant written with offsets a few minutes apart: values with a zone that denote the same instant are
	// ordered by their offset, to the second - not by its hours
	var same []DTCase
	sameInstant := []string{"12:34:56+05:30", "12:04:56+05:00", "12:49:56+05:45", "07:19:56+00:15", "06:49:56-00:15", "07:04:56+00", "07:04:56Z", "07:05:26+00:00:30", "07:05:06+00:00:10",
		"2015-08-01T12:34:56+05:30", "2015-08-01T12:04:56+05:00", "2015-08-01T12:49:56+05:45", "2015-08-01T07:04:56Z", "2015-08-01T07:19:56+00:15", "2015-08-01T06:49:56-00:15"}
	for _, a := range sameInstant {
		for _, b := range sameInstant {
			for _, op := range cmpOps {
				same = append(same, DTCase{Path: "$a.datetime() " + op + " $b.datetime()", A: a, B: b}, DTCase{Path: "$a.datetime() " + op + " $b.datetime()", A: a, B: b, TZ: true, Zone: "+05:30"})
			}
			coh = append(coh, DTCase{A: a, B: b, TZ: true, Zone: "Asia/Kolkata"}, DTCase{A: a, B: b})
		}
	}
	runTable("one_instant_under_offsets_minutes_apart", "c17.datetime", same, checkDTFacts)
	runTable("coherence_and_antisymmetry", "c17.coherence", coh, func(c DTCase) (*Violation, dtFacts) { return checkDTCoherence(c), dtFacts{class: "relation"} })
	// zones east of UTC whose DST transitions fall before UTC midnight, and instants a fraction of a second after midnight
	var east, eastCoh []DTCase
	for _, a := range dtEast {
		for _, z := range []string{"Australia/Sydney", "Pacific/Auckland", "UTC", "America/New_York"} {
			for _, m := range dtMethods {
				east = append(east, DTCase{Path: "$a." + m + "().string()", A: a, TZ: true, Zone: z}, DTCase{Path: "$a." + m + "()." + "timestamp_tz().string()", A: a, TZ: true, Zone: z}, DTCase{Path: "$a." + m + "().date().string()", A: a, TZ: true, Zone: z})
			}
			for _, b := range dtEast {
				for _, op := range []string{"==", "<", ">="} {
					east = append(east, DTCase{Path: "$a.datetime() " + op + " $b.datetime()", A: a, B: b, TZ: true, Zone: z})
				}
				eastCoh = append(eastCoh, DTCase{A: a, B: b, TZ: true, Zone: z})
			}
		}
	}
	runTable("eastern_dst_zones_and_fractions_after_midnight", "c17.datetime", east, checkDTFacts)
	runTable("eastern_coherence_and_antisymmetry", "c17.coherence", eastCoh, func(c DTCase) (*Violation, dtFacts) { return checkDTCoherence(c), dtFacts{class: "relation"} })
	// (D50) zone-less timestamps a fraction of a second before a change of the zone's offset, cast with a
	// precision: the precision is that of the result, so the cast rounds the instant and is at most half a
	// unit away from the cast without a precision
	var edge []DTCase
	for _, x := range []struct{ zone, at string }{
		{"America/New_York", "2023-11-05 01:59:59"}, {"America/New_York", "2023-03-12 01:59:59"}, {"America/New_York", "2023-11-05 00:59:59"}, {"America/New_York", "2023-03-12 02:59:59"},
		{"Australia/Sydney", "2023-10-01 01:59:59"}, {"Australia/Sydney", "2023-04-02 02:59:59"}, {"Pacific/Auckland", "2023-09-24 01:59:59"}, {"Pacific/Auckland", "2023-04-02 02:59:59"},
		{"Pacific/Apia", "2011-12-29 23:59:59"}, {"Europe/London", "2023-03-26 00:59:59"}, {"Europe/London", "2023-10-29 01:59:59"}, {"UTC", "2023-11-05 01:59:59"}, {"+05:30", "2023-11-05 23:59:59"},
	} {
		for _, frac := range []string{".7", ".96", ".4999996", ".5", ".9999996", ".49", ""} {
			for p := 0; p <= 7; p++ {
				a := strings.Replace(x.at, " ", "T", p%2) + frac
				edge = append(edge, DTCase{Path: fmt.Sprintf("$a.timestamp_tz(%d)", p), A: a, TZ: true, Zone: x.zone},
					DTCase{Path: fmt.Sprintf("$a.timestamp_tz(%d).string()", p), A: a, TZ: true, Zone: x.zone},
					DTCase{Path: fmt.Sprintf("$a.timestamp_tz(%d) >= $a.timestamp_tz()", p), A: a, TZ: true, Zone: x.zone},
					DTCase{Path: fmt.Sprintf("$a.timestamp_tz(%d).timestamp().string()", p), A: a, TZ: true, Zone: x.zone},
					DTCase{Path: fmt.Sprintf("$a.timestamp(%d).timestamp_tz().string()", p), A: a, TZ: true, Zone: x.zone},
					DTCase{Path: fmt.Sprintf("$a.datetime().timestamp_tz(%d)", p), A: a, TZ: true, Zone: x.zone})
			}
		}
	}
	// (D54) and the mirror image: instants a fraction of a second before the change, cast out of the zone with a precision
	for _, x := range []struct{ zone, at string }{
		{"America/New_York", "2023-11-05T05:59:59"}, {"America/New_York", "2023-03-12T06:59:59"}, {"Europe/London", "2023-03-26T00:59:59"}, {"Europe/London", "2023-10-29T00:59:59"},
		{"Australia/Sydney", "2023-09-30T15:59:59"}, {"Australia/Sydney", "2023-04-01T15:59:59"}, {"Pacific/Auckland", "2023-09-23T13:59:59"}, {"Pacific/Apia", "2011-12-30T09:59:59"}, {"UTC", "2023-11-05T05:59:59"}, {"-03:30", "2023-11-05T05:59:59"},
	} {
		for _, frac := range []string{".7", ".96", ".4999996", ".5", ".9999996", ""} {
			for _, off := range []string{"Z", "+00:00", "-04:00", "+05:30"} {
				at := x.at
				if off == "-04:00" || off == "+05:30" { // the same instant written with another offset
					t, _ := time.Parse("2006-01-02T15:04:05", x.at)
					d := map[string]time.Duration{"-04:00": -4 * time.Hour, "+05:30": 5*time.Hour + 30*time.Minute}[off]
					at = t.Add(d).Format("2006-01-02T15:04:05")
				}
				for p := 0; p <= 6; p += 1 + p%2*2 {
					a := at + frac + off
					for _, m := range []string{"timestamp", "time", "time_tz", "timestamp_tz"} {
						edge = append(edge, DTCase{Path: fmt.Sprintf("$a.%s(%d)", m, p), A: a, TZ: true, Zone: x.zone}, DTCase{Path: fmt.Sprintf("$a.%s(%d).string()", m, p), A: a, TZ: true, Zone: x.zone})
					}
					edge = append(edge, DTCase{Path: fmt.Sprintf("$a.timestamp(%d) >= $a.timestamp()", p), A: a, TZ: true, Zone: x.zone}, DTCase{Path: fmt.Sprintf("$a.timestamp_tz(%d).timestamp().string()", p), A: a, TZ: true, Zone: x.zone})
				}
			}
		}
	}
	runTable("precision_casts_next_to_offset_changes", "c17.datetime", edge, checkDTFacts)
	// sequences: a pair that needs the context zone is a non-suppressible error without WithTZ wherever it stands
	// among the pairs that lax mode looks at (it stops at the first true pair), and everywhere in strict mode
	var seqs []DTCase
	for i, a := range dtStrings[:45] {
		for j, b := range dtStrings[:45] {
			if (i+j)%3 != 0 {
				continue
			}
			for _, md := range []string{"", "strict "} {
				for _, sh := range [][2]string{{"$s[*]", "$b"}, {"$r[*]", "$b"}, {"$a", "$s[*]"}, {"$a", "$r[*]"}, {"$s[*]", "$r[*]"}} {
					for _, op := range []string{"<", "==", ">="} {
						seqs = append(seqs, DTCase{Path: md + sh[0] + ".datetime() " + op + " " + sh[1] + ".datetime()", A: a, B: b})
					}
				}
			}
		}
	}
	runTable("sequence_comparisons_without_zone", "c17.datetime", seqs, checkDTFacts)
	// the zone of the process (time.Local, which time.Parse attaches to a value whose offset that zone uses) is no
	// input: the same call returns the same items under every process zone
	t.Run("process_zone_is_no_input", func(t *testing.T) {
		b := ev.enum(t)
		var cs []DTCase
		for _, a := range []string{"2023-11-05T01:59:59.7-04:00", "2023-03-12T01:59:59.7-05:00", "2023-11-05 01:59:59.96-04:00", "2023-10-01T01:59:59.7+10:00", "2023-04-02T02:59:59.7+11:00", "2023-06-01T12:00:00.5-04:00", "01:59:59.7-04:00", "2023-11-05T05:59:59.7Z", "2023-11-05 01:59:59.7", "2023-11-05"} {
			for _, m := range []string{"timestamp_tz", "timestamp", "time_tz", "time", "datetime", "date"} {
				for _, p := range []int{-1, 0, 1, 6} {
					path := "$a." + m + "()"
					if p >= 0 {
						if m == "date" || m == "datetime" {
							continue
						}
						path = fmt.Sprintf("$a.%s(%d)", m, p)
					}
					for _, z := range []string{"", "America/New_York", "+05:30"} {
						cs = append(cs, DTCase{Path: path + ".string()", A: a, TZ: true, Zone: z}, DTCase{Path: path, A: a, TZ: true, Zone: z})
					}
				}
			}
		}
		for i, c := range cs {
			if !mine(i) {
				continue
			}
			v := checkProcessZone(c)
			key, _ := json.Marshal(c)
			ev.Eval("local:"+string(key), true)
			ev.Sample("process_zone", c)
			if !b.Check("c17.processzone", c, v) {
				return
			}
		}
		ev.Exhaustive("process_zone_is_no_input", int64(len(cs)))
	})
	// the exported ParseTime rounds as the path methods do
	var pt []DTCase
	for _, a := range append(append([]string{"12:00:00.285", "10:20:30.565", "2015-08-01T10:20:30.575Z", "2015-08-01T10:20:30.285", "23:59:58.9999995+05:30", "12:00:00.0000005", "12:00:00.1234565", "2015-08-01 10:20:30.4999995-04:00"}, dtStrings[:45]...), dtEast...) {
		for _, z := range []string{"", "America/New_York"} {
			pt = append(pt, DTCase{A: a, TZ: true, Zone: z})
		}
	}
	runTable("parsetime_rounds_as_the_methods_do", "c17.parsetime", pt, func(c DTCase) (*Violation, dtFacts) { return checkParseTimeCase(c), dtFacts{class: "relation"} })
	// a datetime value converts to a string that converts back to an equal value
	var back []DTCase
	for _, a := range append(append([]string{}, dtStrings[:45]...), dtEast...) {
		for _, m := range dtMethods {
			for _, p := range []int{-1, 0, 1, 3, 6} {
				for _, z := range []string{"", "America/New_York"} {
					path := "$a." + m + "()"
					if p >= 0 {
						if m == "date" || m == "datetime" {
							continue
						}
						path = fmt.Sprintf("$a.%s(%d)", m, p)
					}
					back = append(back, DTCase{Path: path, A: a, TZ: true, Zone: z})
				}
			}
		}
	}
	runTable("string_converts_back_to_an_equal_value", "c17.stringback", back, func(c DTCase) (*Violation, dtFacts) { return checkStringBack(c), dtFacts{class: "relation"} })
	// transitivity over triples of the comparable corpus, through the implementation's answers
	t.Run("transitivity", func(t *testing.T) {
		b := ev.enum(t)
		vals := dtStrings[:45]
		for _, z := range []struct {
			tz   bool
			zone string
		}{{true, "UTC"}, {true, "+05:30"}, {true, "America/New_York"}} {
			le := map[[2]int]string{}
			for i, x := range vals {
				for j, y := range vals {
					got, _, ok := runDT(DTCase{Path: "$a.datetime() <= $b.datetime()", A: x, B: y, TZ: z.tz, Zone: z.zone})
					r := "?"
					if ok && got.Class == EOK && len(got.Items) == 1 {
						r = Render(got.Items[0], false)
					}
					le[[2]int{i, j}] = r
				}
			}
			n := 0
			for i := range vals {
				if !mine(i) {
					continue
				}
				for j := range vals {
					for k := range vals {
						n++
						if le[[2]int{i, j}] == "true" && le[[2]int{j, k}] == "true" && le[[2]int{i, k}] == "false" {
							c := DTCase{Path: "$a.datetime() <= $b.datetime()", A: vals[i], B: vals[k], TZ: z.tz, Zone: z.zone}
							if !b.Check("c17.datetime", c, violf("datetime order is not transitive under zone %q: %q <= %q and %q <= %q but not %q <= %q", z.zone, vals[i], vals[j], vals[j], vals[k], vals[i], vals[k])) {
								return
							}
						}
					}
				}
			}
			ev.mu.Lock()
			ev.evaluations += int64(n)
			ev.mu.Unlock()
		}
		ev.Exhaustive("datetime_triples_transitivity", int64(3*45*45*45))
	})
	ev.rapidProp(t, "random_instants", func(rt *rapid.T) {
		gen := func(l string) string {
			y := rapid.IntRange(1, 9999).Draw(rt, l+"y")
			mo := rapid.IntRange(1, 12).Draw(rt, l+"mo")
			d := rapid.IntRange(1, 28).Draw(rt, l+"d")
			h, mi, s := rapid.IntRange(0, 23).Draw(rt, l+"h"), rapid.IntRange(0, 59).Draw(rt, l+"mi"), rapid.IntRange(0, 59).Draw(rt, l+"s")
			frac := ""
			if nd := rapid.IntRange(0, 9).Draw(rt, l+"nd"); nd > 0 {
				frac = fmt.Sprintf(".%0*d", nd, rapid.IntRange(0, 999999999).Draw(rt, l+"fr")%pow10(nd))
			}
			tz := rapid.SampledFrom([]string{"", "Z", "+00", "-04", "+05:30", "-12:00", "+14:00", "+01", "-00:30"}).Draw(rt, l+"tz")
			sep := rapid.SampledFrom([]string{"T", " "}).Draw(rt, l+"sep")
			switch rapid.IntRange(0, 4).Draw(rt, l+"kind") {
			case 0:
				return fmt.Sprintf("%04d-%02d-%02d", y, mo, d)
			case 1:
				return fmt.Sprintf("%02d:%02d:%02d%s", h, mi, s, frac)
			case 2:
				if tz == "" {
					tz = "Z"
				}
				return fmt.Sprintf("%02d:%02d:%02d%s%s", h, mi, s, frac, tz)
			case 3:
				return fmt.Sprintf("%04d-%02d-%02d%s%02d:%02d:%02d%s", y, mo, d, sep, h, mi, s, frac)
			}
			if tz == "" {
				tz = "+00"
			}
			return fmt.Sprintf("%04d-%02d-%02d%s%02d:%02d:%02d%s%s", y, mo, d, sep, h, mi, s, frac, tz)
		}
		a, b2 := gen("a"), gen("b")
		// (Chicago / Shanghai / Havana all abbreviate to CST, Kolkata / Dublin / Jerusalem to IST: an abbreviation is no zone)
		zone := rapid.SampledFrom([]string{"", "UTC", "+05:30", "-12:00", "America/New_York", "America/Chicago", "Asia/Shanghai", "Asia/Kolkata", "Europe/Dublin", "Asia/Jerusalem", "+08:00"}).Draw(rt, "zone")
		if rapid.IntRange(0, 9).Draw(rt, "edge") < 4 {
			// values within two seconds of a change of a named zone's offset, written as local time of that zone or
			// as an instant with some offset, under that zone: uniformly drawn instants never come near one
			zone = rapid.SampledFrom(transitionZones).Draw(rt, "tzone")
			a, b2 = genNearTransition(rt, zone, "a"), genNearTransition(rt, zone, "b")
			ev.Label("random:near_offset_change")
		}
		tz := rapid.IntRange(0, 9).Draw(rt, "tz") < 7
		var c DTCase
		switch rapid.IntRange(0, 3).Draw(rt, "shape") {
		case 3:
			// sequences of datetimes ($s = [a, b], $r = [b, a]): lax mode stops at the first pair that is true or
			// needs a zone it does not have, strict mode looks at every pair - a pair that needs the zone is an
			// error wherever it stands
			l, r := rapid.SampledFrom([]string{"$s[*]", "$r[*]", "$a", "$b"}).Draw(rt, "lseq"), rapid.SampledFrom([]string{"$s[*]", "$r[*]", "$a", "$b"}).Draw(rt, "rseq")
			c = DTCase{Path: rapid.SampledFrom([]string{"", "strict "}).Draw(rt, "mode") + l + ".datetime() " + rapid.SampledFrom(cmpOps).Draw(rt, "op") + " " + r + ".datetime()", A: a, B: b2, TZ: tz, Zone: zone}
			ev.Label("random:sequence_comparison")
		case 0:
			m := rapid.SampledFrom(dtMethods).Draw(rt, "m")
			arg := ""
			if m != "datetime" && m != "date" && rapid.Bool().Draw(rt, "hasp") {
				arg = fmt.Sprint(rapid.IntRange(0, 9).Draw(rt, "p"))
			}
			c = DTCase{Path: fmt.Sprintf("$a.%s(%s)", m, arg), A: a, TZ: tz, Zone: zone}
		case 1:
			c = DTCase{Path: "$a.datetime() " + rapid.SampledFrom(cmpOps).Draw(rt, "op") + " $b.datetime()", A: a, B: b2, TZ: tz, Zone: zone}
		default:
			c = DTCase{A: a, B: b2, TZ: tz, Zone: zone}
			key, _ := json.Marshal(c)
			ev.Eval(string(key), true)
			ev.Check(rt, "c17.coherence", c, checkDTCoherence(c))
			return
		}
		v, facts := checkDTFacts(c)
		key, _ := json.Marshal(c)
		ev.Eval(string(key), !facts.excluded)
		ev.Sample("random:"+facts.class, c)
		ev.Check(rt, "c17.datetime", c, v)
		if rapid.IntRange(0, 3).Draw(rt, "pz") == 0 {
			ev.Check(rt, "c17.processzone", c, checkProcessZone(c))
		}
	})
}

// (Havana, Beirut, Asuncion, Santiago and Sao Paulo change their offset at local midnight, so that a *date* of
// the zone lies next to the change)
var transitionZones = []string{"America/New_York", "Australia/Sydney", "Europe/London", "Pacific/Auckland", "Pacific/Apia", "Australia/Lord_Howe", "America/St_Johns", "Asia/Tehran",
	"America/Havana", "Asia/Beirut", "America/Asuncion", "America/Santiago", "America/Sao_Paulo"}

var (
	transitionsMu    sync.Mutex
	transitionsCache = map[string][]time.Time{}
)

// zoneTransitions: the instants (to the second) between 2005 and 2025 at which the offset of the zone changes.
func zoneTransitions(zone string) []time.Time {
	transitionsMu.Lock()
	defer transitionsMu.Unlock()
	if ts, ok := transitionsCache[zone]; ok {
		return ts
	}
	loc, err := time.LoadLocation(zone)
	if err != nil {
		panic(err)
	}
	off := func(t time.Time) int { _, o := t.In(loc).Zone(); return o }
	var out []time.Time
	t := time.Date(2005, 1, 1, 0, 0, 0, 0, time.UTC)
	for end := time.Date(2025, 1, 1, 0, 0, 0, 0, time.UTC); t.Before(end); t = t.Add(24 * time.Hour) {
		lo, hi := t, t.Add(24*time.Hour)
		if off(lo) == off(hi) {
			continue
		}
		for hi.Sub(lo) > time.Second {
			mid := lo.Add(hi.Sub(lo) / 2).Truncate(time.Second)
			if off(mid) == off(lo) {
				lo = mid
			} else {
				hi = mid
			}
		}
		out = append(out, hi)
	}
	transitionsCache[zone] = out
	return out
}

func genNearTransition(rt *rapid.T, zone, l string) string {
	ts := zoneTransitions(zone)
	at := ts[rapid.IntRange(0, len(ts)-1).Draw(rt, l+"ti")]
	at = at.Add(time.Duration(rapid.SampledFrom([]int{-2, -1, 0, 1, -2, -1, 0, 1, -1800, 1800, -3599, 3599, -3600, 3600, -7200, 900}).Draw(rt, l+"ds")) * time.Second)
	frac := rapid.SampledFrom([]string{"", ".5", ".7", ".96", ".4999996", ".9999996", ".04", ".999", ".0000004"}).Draw(rt, l+"frac")
	sep := rapid.SampledFrom([]string{"T", " "}).Draw(rt, l+"sep")
	loc, _ := time.LoadLocation(zone)
	switch rapid.IntRange(0, 4).Draw(rt, l+"as") {
	case 4: // the date of that day in the zone (or the next)
		return at.In(loc).AddDate(0, 0, rapid.IntRange(0, 1).Draw(rt, l+"dd")).Format("2006-01-02")
	case 0: // local time of the zone, without an offset
		return at.In(loc).Format("2006-01-02"+sep+"15:04:05") + frac
	case 1: // the instant, in UTC
		return at.UTC().Format("2006-01-02"+sep+"15:04:05") + frac + rapid.SampledFrom([]string{"Z", "+00", "+00:00"}).Draw(rt, l+"z")
	case 2: // the instant, with the offset the zone has then
		return at.In(loc).Format("2006-01-02"+sep+"15:04:05") + frac + at.In(loc).Format("-07:00")
	}
	o := time.FixedZone("", rapid.SampledFrom([]int{-4 * 3600, 5*3600 + 1800, 10 * 3600, -12 * 3600, 14 * 3600, 3600}).Draw(rt, l+"off"))
	return at.In(o).Format("2006-01-02"+sep+"15:04:05") + frac + at.In(o).Format("-07:00")
}

func pow10(n int) int {
	r := 1
	for i := 0; i < n; i++ {
		r *= 10
	}
	return r
}
