package checks

// C05 — execution is total and pure, and its errors are classified.

import (
	"context"
	"encoding/json"
	"fmt"
	"math"
	"reflect"
	"strings"
	"testing"

	"github.com/theory/sqljson/path/exec"
	"github.com/theory/sqljson/path/types"
	"pgregory.net/rapid"
)

type totalFacts struct {
	classes   map[string]bool
	d9        bool
	mismatch  bool // some entry point reported an error class or a null predicate
	cancelled bool // some run had its context become done during the execution
}

var c05Ev *Ev

var checkTotal = register("c05.total", func(c ExecCase) *Violation {
	v, _ := checkTotalFacts(c)
	return v
})

func collectContainers(v any, known map[uintptr]int) {
	switch v := v.(type) {
	case map[string]any:
		known[reflect.ValueOf(v).Pointer()] = len(v)
		for _, e := range v {
			collectContainers(e, known)
		}
	case exec.Vars:
		for _, e := range v {
			collectContainers(e, known)
		}
	case []any:
		if len(v) > 0 {
			known[reflect.ValueOf(v).Pointer()] = len(v)
		}
		for _, e := range v {
			collectContainers(e, known)
		}
	}
}

// provenance checks one result item: finite numbers, documented types, and
// containers that are sub-values of the input (or keyvalue triples).
func provenance(v any, known map[uintptr]int, at string) *Violation {
	switch v := v.(type) {
	case nil, bool, string, int64, json.Number:
		return nil
	case float64:
		if math.IsNaN(v) || math.IsInf(v, 0) {
			return violf("%s: non-finite number %v returned", at, v)
		}
		return nil
	case *types.Date, *types.Time, *types.TimeTZ, *types.Timestamp, *types.TimestampTZ:
		if reflect.ValueOf(v).IsNil() {
			return violf("%s: nil %T returned", at, v)
		}
		return nil
	case []any:
		if len(v) == 0 {
			return nil
		}
		if n, ok := known[reflect.ValueOf(v).Pointer()]; ok && n == len(v) {
			return nil
		}
		return violf("%s: returned array %v is not a sub-value of the input", at, Render(v, false))
	case map[string]any:
		if n, ok := known[reflect.ValueOf(v).Pointer()]; ok && n == len(v) {
			return nil
		}
		if isTriple(v) {
			if _, ok := v["key"].(string); !ok {
				return violf("%s: keyvalue triple with non-string key %v", at, v["key"])
			}
			if _, ok := numRat(v["id"]); !ok {
				return violf("%s: keyvalue triple with non-numeric id %v", at, v["id"])
			}
			return provenance(v["value"], known, at+".value")
		}
		return violf("%s: returned object %v is neither a sub-value of the input nor a keyvalue triple", at, Render(v, false))
	}
	return violf("%s: value of undocumented type %T returned", at, v)
}

func checkTotalFacts(c ExecCase) (v *Violation, f totalFacts) { //nolint:gocyclo
	f.classes = map[string]bool{}
	pr, err := prepare(c)
	if err != nil {
		return nil, f
	}
	docCopy, varsCopy := deepCopy(pr.doc), deepCopy(pr.vars)
	known := map[uintptr]int{}
	collectContainers(pr.doc, known)
	collectContainers(pr.vars, known)
	ev := c05Ev
	if ev == nil {
		ev = &Ev{Prop: "C05"}
	}
	open := pr.orderOpen()
	kv2 := pr.chainedKeyvalue()
	for _, silent := range []bool{false, true} {
		obs := pr.observe(silent)
		again := pr.observe(silent)
		type ent struct {
			name     string
			o, o2    Outcome
			nullOK   bool
			hasItems bool
		}
		for _, e := range []ent{
			{"Query", obs.Query, again.Query, false, true},
			{"First", obs.First, again.First, false, true},
			{"Exists", obs.Exists, again.Exists, true, false},
			{"Match", obs.Match, again.Match, true, false},
			{"ExistsOrMatch", obs.EoM, again.EoM, true, false},
		} {
			at := fmt.Sprintf("%s(%q, %s, silent=%v)", e.name, c.Path, c.Doc, silent)
			if e.o.Panic != "" {
				return violf("%s panicked: %s", at, e.o.Panic), f
			}
			f.classes[e.o.Class] = true
			switch e.o.Class {
			case EOK:
			case ESupp, EHard:
				f.mismatch = true
			case ENull:
				f.mismatch = true
				if !e.nullOK {
					return violf("%s returned exec.NULL", at), f
				}
			case EInvalid:
				if isD9(e.o.Err) && ev.quirk("datetime_vs_nondatetime_invalid") {
					f.d9 = true
					continue
				}
				return violf("%s returned ErrInvalid for a parser-produced path: %v", at, e.o.Err), f
			default:
				return violf("%s returned an error that wraps neither exec.ErrExecution nor is exec.NULL: %v", at, e.o.Err), f
			}
			if e.hasItems {
				items := e.o.Items
				if e.name == "First" {
					items = []any{e.o.Item}
				}
				for i, it := range items {
					if pv := provenance(it, known, fmt.Sprintf("%s item %d", at, i)); pv != nil {
						return pv, f
					}
				}
			}
			// purity: the same call again returns the same thing (keyvalue ids of chained
			// .keyvalue() steps aside: open finding D30, C16's statement)
			if e.o2.Panic != "" {
				return violf("%s panicked on repetition: %s", at, e.o2.Panic), f
			}
			if open {
				continue
			}
			if e.o.Class != e.o2.Class || e.o.Bool != e.o2.Bool ||
				!sameSeq(RenderSeq(e.o.Items, kv2), RenderSeq(e.o2.Items, kv2)) ||
				Render(e.o.Item, kv2) != Render(e.o2.Item, kv2) {
				return violf("%s is not repeatable: %s then %s", at, e.o, e.o2), f
			}
		}
	}
	// the same classification when the context becomes done in the middle of the
	// execution: whatever the fault point, the error wraps exec.ErrExecution (or is NULL)
	for _, k := range []int{0, 1, 2, 3, 4, 6, 9, 14, 22} {
		for i, name := range entryNames {
			for _, silent := range []bool{false, true} {
				cc := newCountCtx(pr.ctx, k, context.Canceled)
				cc.tickMode = k%2 == 0
				o := runEntry(i, cc, pr, silent)
				at := fmt.Sprintf("%s(%q, %s, silent=%v) with the context cancelled at its use number %d", name, c.Path, c.Doc, silent, k)
				if o.Panic != "" {
					return violf("%s panicked: %s", at, o.Panic), f
				}
				switch o.Class {
				case EOK, ESupp, EHard, ECtx:
				case ENull:
					if i < 2 {
						return violf("%s returned exec.NULL", at), f
					}
				case EInvalid:
					if !(isD9(o.Err) && ev.quirk("datetime_vs_nondatetime_invalid")) {
						return violf("%s returned ErrInvalid: %v", at, o.Err), f
					}
				default:
					return violf("%s returned an error that wraps neither exec.ErrExecution nor is exec.NULL: %v", at, o.Err), f
				}
				if cc.firedAt >= 0 || cc.doneTick >= 0 {
					f.cancelled = true
				}
			}
		}
	}
	if !deepEqualJSON(docCopy, pr.doc) {
		return violf("the queried value was modified by %q: %s -> %s", c.Path, Render(docCopy, false), Render(pr.doc, false)), f
	}
	if pr.vars != nil {
		// the same with a second variables option in the call: neither map is written to
		extra := exec.Vars{"zz_extra": float64(1), "x": "other"}
		extraCopy := deepCopy(extra)
		for _, order := range [][]exec.Option{{exec.WithVars(pr.vars), exec.WithVars(extra)}, {exec.WithVars(extra), exec.WithVars(pr.vars)}} {
			if o := RunQuery(pr.ctx, pr.p, pr.doc, order...); o.Panic != "" {
				return violf("Query(%q) with two WithVars options panicked: %s", c.Path, o.Panic), f
			}
		}
		if !deepEqualJSON(extraCopy, extra) {
			return violf("a variables map passed next to another one was modified by %q", c.Path), f
		}
	}
	if !deepEqualJSON(varsCopy, pr.vars) {
		return violf("the variables were modified by %q", c.Path), f
	}
	return nil, f
}

// typeTableCases: every operator and method applied to every JSON type.
func typeTableCases() []ExecCase {
	long := "1" + strings.Repeat("0", 400)
	values := []string{`5e-324`, `0.001`, `-1e-300`, `0`, `0.0`, `-0.0`, `"0"`, `1e-400`, long, "-" + long, `[0, ` + long + `]`, `null`, `true`, `1`, `-1.5`, `1e308`, `9223372036854775807`, `1e400`, `123456789012345678901234567890`, `"abc"`, `"12"`, `"2015-08-01"`, `"12:34:56+01"`, `"2015-08-01T12:34:56"`, `[]`, `[1,"a",null]`, `[[1]]`, `{}`, `{"a":1,"b":[2]}`}
	var tails []string
	for _, m := range methods {
		tails = append(tails, "$."+m+"()")
	}
	for _, m := range defDTs {
		tails = append(tails, "$."+m+"()")
	}
	tails = append(tails, "$.decimal(5,2)", "$.decimal(1000,1000)", "$.decimal(10,400)", "$.decimal(1,-1000)", "$.time(3)", "$.timestamp_tz(0)", "-$", "+$", "$[0]", "$[last]", "$[$]", "$[0 to $]", "$[$[1]]", "$[0 to $[1]]", "$[0] == $[1]", "$[1] > 0", "$[*] ? (@ > 1)", "$.decimal(1000,400)", "$.decimal(400,309)", "$.decimal(1,-400)", "$.*", "$[*]", "$.**", "$.a", "$ ? (@ > 1)", "$.datetime().string()", "$.datetime().type()")
	for _, op := range arithOps {
		tails = append(tails, "1e308 "+op+" $", "9223372036854775807 "+op+" $", "$ "+op+" 0.001", "$ "+op+" 5e-324", "4294967296 "+op+" $", "$ "+op+" 2", "2 "+op+" $", "$ "+op+" $", "$ "+op+" 0", "$ "+op+" 1e308", "$ "+op+" 9223372036854775807")
	}
	for _, op := range cmpOps {
		tails = append(tails, "$ "+op+" 1", "$ "+op+" $", `$ `+op+` "abc"`, "$ "+op+" null", "$.datetime() "+op+" $", "$ "+op+` "2015-08-01".datetime()`, "$.datetime() "+op+` "12:00:00".time()`)
	}
	tails = append(tails, `$ starts with "a"`, `$ like_regex "a"`, `exists($)`, `($ == 1) is unknown`, `!($ == 1)`, `$ starts with $x`)
	var out []ExecCase
	for _, v := range values {
		for _, t := range tails {
			for _, strict := range []string{"", "strict "} {
				for _, un := range []bool{false, true} {
					out = append(out, ExecCase{Path: strict + t, Doc: v, Opts: Opts{UseNumber: un, TZ: un, HasVars: true, Vars: map[string]string{"x": v}}})
				}
			}
		}
	}
	return out
}

func TestC05(t *testing.T) {
	ev := newEv(t, "C05")
	c05Ev = ev
	ev.replayTier(t)
	_ = ev.quirk("unbounded_recursion_stack_overflow") // open finding D42: prints its KNOWN-FINDING line while the probe reproduces it
	record := func(class string, c ExecCase, f totalFacts) {
		ev.Eval(c.Key(), f.mismatch)
		for k := range f.classes {
			ev.Label("class:" + k)
		}
		if f.cancelled {
			ev.Label("context_done_mid_execution")
		}
		if f.d9 {
			ev.KFCase("D9")
		}
		ev.Sample(class, c)
	}
	t.Run("type_table", func(t *testing.T) {
		b := ev.enum(t)
		cs := append(typeTableCases(), pgCorpusCases()...)
		for i, c := range cs {
			if !mine(i) {
				continue
			}
			v, f := checkTotalFacts(c)
			record("type_table", c, f)
			if !b.Check("c05.total", c, v) {
				return
			}
		}
		ev.Exhaustive("operator_and_method_by_type_table", int64(len(cs)))
	})
	pcfg := GenCfg{MaxNodes: 12, HardErrPct: 15, ErrBias: true}
	dcfg := DocCfg{HugeNums: true}
	ev.rapidProp(t, "random", func(rt *rapid.T) {
		c, p := genExecCase(rt, pcfg, dcfg)
		v, f := checkTotalFacts(c)
		record("random", c, f)
		for _, k := range nodeKinds(p.Root) {
			ev.Label("node:" + k)
		}
		ev.Check(rt, "c05.total", c, v)
	})
}
