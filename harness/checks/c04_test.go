package checks

// C04 — Parse is total: a path or a parse error, never a panic, for any input.

import (
	"context"
	"errors"
	"fmt"
	"strings"
	"testing"
	"time"
	"unicode/utf8"

	"github.com/theory/sqljson/path"
	"github.com/theory/sqljson/path/parser"
	"pgregory.net/rapid"
)

// ParseCase is the replayable input of the C04 oracle.
type ParseCase struct {
	Input      string `json:"input"`
	InputHex   string `json:"input_hex,omitempty"` // set when Input is not valid UTF-8
	MustReject bool   `json:"must_reject,omitempty"`
	MustAccept bool   `json:"must_accept,omitempty"`
	Why        string `json:"why,omitempty"`
}

func (c ParseCase) bytes() string {
	if c.InputHex != "" {
		var b []byte
		_, _ = fmt.Sscanf(c.InputHex, "%x", &b)
		return string(b)
	}
	return c.Input
}

func mkParseCase(s string) ParseCase {
	if utf8.ValidString(s) {
		return ParseCase{Input: s}
	}
	return ParseCase{InputHex: fmt.Sprintf("%x", s)}
}

// parseFacts is what the oracle learned about one input (for evidence).
type parseFacts struct {
	accepted bool
	hasRegex bool
}

var checkParse = register("c04.parse", func(c ParseCase) *Violation {
	v, _ := checkParseFacts(c)
	return v
})

func checkParseFacts(c ParseCase) (*Violation, parseFacts) {
	type res struct {
		v *Violation
		f parseFacts
	}
	ch := make(chan res, 1)
	go func() {
		v, f := checkParseInner(c)
		ch <- res{v, f}
	}()
	select {
	case r := <-ch:
		return r.v, r.f
	case <-time.After(120 * time.Second):
		// the only wall-clock signal in the suite: >10^5 x the normal cost of a parse, and still two
		// orders of magnitude above the slowest legitimate case (2.7 s) on a machine that is
		// oversubscribed several times over
		return violf("Parse and follow-up calls on a %d-byte input did not return within 120s (hang)", len(c.bytes())), parseFacts{}
	}
}

func checkParseInner(c ParseCase) (v *Violation, f parseFacts) {
	in := c.bytes()
	defer func() {
		if r := recover(); r != nil {
			v = violf("panic while checking %q: %v", in, r)
		}
	}()
	p, err, pan := ParseSafe(in)
	if pan != "" {
		return violf("Parse(%q) panicked: %s", in, pan), f
	}
	if (p == nil) == (err == nil) {
		return violf("Parse(%q) returned path=%v err=%v: exactly one must be nil", in, p, err), f
	}
	if p != nil && p.AST == nil {
		return violf("Parse(%q) returned a Path with a nil AST", in), f
	}
	if err != nil {
		if !errors.Is(err, path.ErrPath) || !errors.Is(err, parser.ErrParse) {
			return violf("Parse(%q) error %q does not wrap path.ErrPath and parser.ErrParse", in, err), f
		}
	}
	// MustParse panics exactly when Parse errs.
	mustPanicked := false
	func() {
		defer func() {
			if r := recover(); r != nil {
				mustPanicked = true
			}
		}()
		_ = path.MustParse(in)
	}()
	if mustPanicked != (err != nil) {
		return violf("MustParse(%q) panicked=%v but Parse err=%v", in, mustPanicked, err), f
	}
	// Scan / UnmarshalText / UnmarshalBinary report the same failures wrapped in ErrScan.
	type ent struct {
		name string
		call func(*path.Path) error
		skip bool
	}
	for _, e := range []ent{
		{"Scan(string)", func(q *path.Path) error { return q.Scan(in) }, in == ""},
		{"Scan([]byte)", func(q *path.Path) error { return q.Scan([]byte(in)) }, in == ""},
		{"UnmarshalText", func(q *path.Path) error { return q.UnmarshalText([]byte(in)) }, false},
		{"UnmarshalBinary", func(q *path.Path) error { return q.UnmarshalBinary([]byte(in)) }, false},
	} {
		if e.skip {
			continue
		}
		var q path.Path
		var serr error
		var span string
		func() {
			defer func() {
				if r := recover(); r != nil {
					span = fmt.Sprint(r)
				}
			}()
			serr = e.call(&q)
		}()
		if span != "" {
			return violf("%s(%q) panicked: %s", e.name, in, span), f
		}
		if (serr != nil) != (err != nil) {
			return violf("%s(%q) err=%v but Parse err=%v", e.name, in, serr, err), f
		}
		if serr != nil && (!errors.Is(serr, path.ErrScan) || !errors.Is(serr, parser.ErrParse)) {
			return violf("%s(%q) error %q does not wrap path.ErrScan and parser.ErrParse", e.name, in, serr), f
		}
		if serr == nil {
			if q.AST == nil {
				return violf("%s(%q) succeeded but left a nil AST", e.name, in), f
			}
			if q.String() != p.String() {
				return violf("%s(%q) yields %q, Parse yields %q", e.name, in, q.String(), p.String()), f
			}
		}
	}
	if c.MustReject && err == nil {
		return violf("input %q (%s) is forbidden by the documented syntax but was accepted as %q", in, c.Why, p.String()), f
	}
	if c.MustAccept && err != nil {
		return violf("input %q (%s) is permitted by the documented syntax but was rejected: %v", in, c.Why, err), f
	}
	if err != nil {
		return nil, f
	}
	f.accepted = true
	// Accepted paths must be usable: printable, walkable (every like_regex
	// compiles), executable without panicking.
	_ = p.String()
	tree := PathFromAST(p.AST) // FromAST calls Regexp() on every regex node
	f.hasRegex = tree.Root.Has(func(n *Node) bool { return n.K == KRegex })
	if tree.Root.Has(func(n *Node) bool { return n.K == KCur }) && !atOnlyInFilters(tree.Root, 0) {
		return violf("accepted path %q uses @ outside a filter", in), f
	}
	if !lastOnlyInSubscripts(tree.Root, false) {
		return violf("accepted path %q uses last outside an array subscript", in), f
	}
	for _, doc := range []any{nil, "abc\nABC", []any{"a", float64(1), map[string]any{"a": "b"}}} {
		o := RunQuery(context.Background(), p, doc)
		if o.Panic != "" {
			return violf("Query with accepted path %q on %v panicked: %s", in, doc, o.Panic), f
		}
	}
	return nil, f
}

// atOnlyInFilters re-implements the documented placement rule for @.
func atOnlyInFilters(n *Node, depth int) bool {
	if n == nil {
		return true
	}
	if n.K == KCur && depth == 0 {
		return false
	}
	d := depth
	if n.K == KFilter {
		d++
	}
	if !atOnlyInFilters(n.A, d) || !atOnlyInFilters(n.B, d) {
		return false
	}
	for _, s := range n.Subs {
		if !atOnlyInFilters(s.From, depth) || !atOnlyInFilters(s.To, depth) {
			return false
		}
	}
	return atOnlyInFilters(n.Next, depth)
}

// lastOnlyInSubscripts re-implements the documented placement rule for last.
func lastOnlyInSubscripts(n *Node, inSub bool) bool {
	if n == nil {
		return true
	}
	if n.K == KLast && !inSub {
		return false
	}
	if !lastOnlyInSubscripts(n.A, inSub) || !lastOnlyInSubscripts(n.B, inSub) {
		return false
	}
	for _, s := range n.Subs {
		if !lastOnlyInSubscripts(s.From, true) || !lastOnlyInSubscripts(s.To, true) {
			return false
		}
	}
	return lastOnlyInSubscripts(n.Next, inSub)
}

// nearMisses: one constructor per validity rule of the documented syntax.
func nearMisses() []ParseCase {
	var out []ParseCase
	rej := func(why string, ins ...string) {
		for _, in := range ins {
			c := mkParseCase(in)
			c.MustReject, c.Why = true, why
			out = append(out, c)
		}
	}
	acc := func(why string, ins ...string) {
		for _, in := range ins {
			c := mkParseCase(in)
			c.MustAccept, c.Why = true, why
			out = append(out, c)
		}
	}
	neu := func(why string, ins ...string) {
		for _, in := range ins {
			c := mkParseCase(in)
			c.Why = why
			out = append(out, c)
		}
	}
	rej("@ outside a filter", "@", "@.a", "$.a[@]", "$ ? (@ > 1).b[@.c]", "$[@.a to 1]", "@ == 1", "exists(@)", "$.a ? (@ > 1) == @", "-@", "(@).a", "$ ? (@.a > 1) ? (@.b > 1)[@]")
	rej("@ or last misplaced after a variable or literal head", "$v[@]", "$v ? (last > 0)", `"abc" ? (last == 1)`, "1.5 ? (@ > last)", "$.a == $v[@]", "(1).a[@]", "true ? (last == 1)", "$v.a[@.b]", `$"v"[last]."a" ? (@ == last)`, "null[@]", "(1 + 2)[@]", "($ == 1)[@]", "(-$)[@]", "$v ? (@ > 1)[@]", `("a" starts with "a").x[@]`)
	acc("@ / last well placed after a variable or literal head", "$v ? (@ > 1)", "$v[last]", `"abc" ? (@ == "abc")`, "(1)[last]", "$v[$v[last]]")
	acc("@ inside a filter", "$ ? (@ > 1)", "$ ? (@.a[@.b] > 1)", "$ ? (exists(@ ? (@ > 1)))", "$[0 ? (@ > 1)]")
	rej("last outside a subscript", "last", "$.a ? (@ > last)", "$.last()", "$ ? (last > 1)", "last + 1", "$[1].a[2].b.c ? (@ == last)", "$.a.b ? (@[last] > last)")
	acc("last inside a subscript", "$[last]", "$[last - 1]", "$[0 to last]", "$[$.a[last]]", "$[last ? (@ > 1)]", "$ ? (@[last] > 1)", "$[1 ? (@ > last)]")
	rej("malformed number", "1__0", "1_", "0x", "0x_1", "0b2", "0o8", "08", "00", "012", "1e", "1e+", "1e-", "1a", "0x1p3", "1.e", "0b", "0o", "0xg", "1_.5", "1._5", "1e_5", "1e5_", "0_1", "_1 + 1", "1.5.5", "0b1e5", "0x1.5", "1..2", "$[1a]", "0B", "1E", ".e1", "1__e1")
	for _, ip := range []string{"0", "7", "10", "1_0", ""} {
		for _, fp := range []string{"", ".", ".5", ".05", ".5_0", ".0"} {
			for _, ex := range []string{"", "e8", "E+9", "e-9", "e08", "e1_0", "E0", "e-08"} {
				if ip == "" && (fp == "" || fp == ".") {
					continue
				}
				acc("decimal number grid", ip+fp+ex, "$["+ip+fp+ex+"]", "-"+ip+fp+ex)
			}
		}
	}
	acc("number forms", "1_000", "0x1F", "0X1f", "0b101", "0B11", "0o17", "0O7", ".5", "5.", "1.5e-3", "1E+2", "1e5", "0", "0.5", "0.", "1_0.5", "1.2_5", "1e1_0", "0x1_F", "0xFFFFFFFF")
	neu("literal outside the int64/float64 range: accept or reject, never panic", "1e400", "-1e400", "1e99999", "$[1e400]", "1.8e308", "9223372036854775808", "-9223372036854775808", "0xFFFFFFFFFFFFFFFFF", "$.decimal(99999999999999999999)", "$[99999999999999999999]", "$.**{99999999999999999999}", "$.time(99999999999999999999)", "0b11111111111111111111111111111111111111111111111111111111111111111", "1e-400", "$.**{4294967295}", "$.**{4294967296 to 2}")
	neu("left open by the documented syntax", `$ like_regex "(" flag "xq"`, "$.**{2 to 1}", `$ like_regex "\\pL"`)
	rej("escape above U+10FFFF (not a code point; storing U+FFFD instead would lose the text)", `"\u{110000}"`, `"\u{FFFFFF}"`, `$.a\u{110000}`, `$"v\u{200000}"`, `$."\u{110000}"`, `$ like_regex "\u{7FFFFF}"`, `"\u{10FFFF}\u{110000}"`)
	acc("the largest code points", `"\u{10FFFF}"`, `"\u{10fffe}"`, `$."\u{100000}"`)
	// keywords are ASCII: a look-alike that Unicode case mapping folds to a keyword is an ordinary identifier
	rej("non-ASCII spelling of a keyword used as the keyword", "str\u0130ct $.a", "$.a.s\u0130ze()", "ex\u0130sts($.a)", "$ l\u0130ke_regex \"a\"", "($ == 1) \u0130s unknown", "$ starts w\u0130th \"a\"", "$.a.\u212aeyvalue()", "$.a.t\u0130me(1)", "$[0 to \u212a]", "$.a.\u212a\u0130\u212a()", "$.a.b\u0130g\u0130nt()", "($ == 1) is un\u212anown")
	acc("non-ASCII look-alikes of keywords are ordinary identifiers", "$.s\u0130ze", "$.\u212aeyvalue", "$.str\u0130ct.\u0130s", "$.a ? (@.w\u0130th == 1)")
	rej("bad escape", `"\u12"`, `"\u{}"`, `"\u{1234567}"`, `"\xZ1"`, `"\x00"`, `"\u0000"`, `"\u{0}"`, `"\ud83d"`, `"\ud83dx"`, `"\ude04\ud83d"`, `"\ude04"`, `"\`, `"\u{12`, `"\x1"`, `"\u123g"`, `$.a\`, `$.\u12`, `$."\u{0000}"`, `$.a\x00`, `"\ud83dA"`, `"\ud83d\n"`)
	acc("escapes", `"\b\f\n\r\t\v"`, `"\x41"`, `"A"`, `"\u{41}"`, `"\u{1F600}"`, `"😄"`, `"\""`, `"\\"`, `"\/"`, `"\q"`, `$.aA`, `$.Ab`, `$."\u{10FFFF}"`)
	rej("unterminated string or comment", `"abc`, `$."abc`, `$"abc`, "$ /* unterminated", "$ /*/", "\"a\nb\"", `$.a like_regex "a`, "$ /* a * /")
	acc("comments", "$ /* c */ .a", "/**/$", "$/***/", "$ /* * */", "$./* x */a")
	rej("NUL", "$\x00", "\"a\x00b\"", "$.a\x00b", "/* \x00 */ $", "\x00")
	rej("invalid UTF-8", "$.\xff", "\"\xc3\"", "\"\xe2\x82\"", "$ /* \xfe */", "\xc0\xaf", "\"\xed\xa0\x80\"", "\"\xf4\x90\x80\x80\"", "$.a\xc3", "\"\x80\"")
	rej("unknown or unsupported like_regex flag", `$ like_regex "a" flag "x"`, `$ like_regex "a" flag "z"`, `$ like_regex "a" flag "ix"`, `$ like_regex "a" flag "I"`, `$ like_regex "a" flag "g"`, `$ like_regex "a" flag " "`, `$ like_regex "a" flag "i,s"`, `($ like_regex "a" flag "z").a`, `($ like_regex "(").type()`, `(($ like_regex "a" flag "x") is unknown).a`)
	acc("q patterns holding regexp syntax (they compile, and run, as literals)", `$ like_regex "C:\\Users\\Eve" flag "q"`, `$ like_regex "\\E" flag "q"`, `$ like_regex "a\\Eb(" flag "iq"`, `$ like_regex "\\Qa\\E[" flag "q"`, `$ like_regex "a\\" flag "q"`, `$ like_regex "\\" flag "qs"`, `$[*] ? (@ like_regex "\\E*" flag "q")`)
	acc("supported like_regex flags", `$ like_regex "a" flag "i"`, `$ like_regex "a" flag "ismq"`, `$ like_regex "a" flag ""`, `$ like_regex "a(" flag "q"`, `$ like_regex "a" flag "iiss"`)
	rej("pattern Go's regexp cannot compile", `$ like_regex "("`, `$ like_regex "a)"`, `$ like_regex "*a"`, `$ like_regex "a{2,1}"`, `$ like_regex "[a"`, `$ like_regex "\\"`, `$ like_regex "a{1001}"`, `$ like_regex "(?P<n"`, `$ like_regex "\\8"`, `$ like_regex "(?z)"`, `$ like_regex "a**"`, `$ like_regex "[z-a]"`, `$ like_regex "\\pX"`, `$ like_regex "(" flag "i"`, `$ like_regex "((((((((((a{1000}){1000}){1000}){1000}){1000}){1000}){1000}){1000}){1000}){1000})"`)
	rej("method arguments", "$.decimal(1,2,3)", "$.time(-1)", "$.time(1.5)", "$.time(\"a\")", "$.decimal(1.5)", "$.decimal(a)", "$.date(1)", "$.datetime(1)", "$.abs(1)", "$.timestamp(1,2)", "$.decimal(,1)", "$.decimal(1,)", "$.time_tz(+1)", "$.decimal(- 1, 2, 3)")
	acc("method arguments", "$.decimal()", "$.decimal(1)", "$.decimal(10,2)", "$.decimal(+10,-2)", "$.decimal(-1,+2)", "$.time(3)", "$.time_tz(0)", "$.timestamp(6)", "$.timestamp_tz(12)", "$.datetime()", `$.datetime("HH24:MI")`, "$.date()")
	rej(".** bounds", "$.**{-1}", "$.**{}", "$.**{1 to}", "$.**{to 1}", "$.**{1.5}", "$.**{a}", "$.**{1,2}", "$.**{1 to 2 to 3}", "$.**{$}", "$**", "$.**{", "$.**{+1}")
	acc(".** bounds", "$.**", "$.**{1}", "$.**{1 to 2}", "$.**{last}", "$.**{1 to last}", "$.**{last to 1}", "$.**{0}")
	rej("structure", "", " ", "$.", "$..a", "$[", "$[]", "$[1,]", "$[,1]", "$ ?", "$ ? ()", "$ ? (1)", "$ ? ($.a)", "$ ? (@.a)", "$ &&", "$ ==", "== 1", "$ == == 1", "1 +", "* 2", "$ ? (@ > 1", "$ ? @ > 1", "($", "$)", "$ $", "$ 1", "1 2", "lax", "strict", "lax strict $", "strict lax $", "lax lax $", "$ lax", "exists($ == 1)", "exists()", "exists $", "!$", "! $.a", "!($.a)", "$ is unknown", "($.a) is unknown", "($ == 1) is", "($ == 1) is known", "$ starts with 1", "$ starts with $.a", "$ starts $x", "$ with \"a\"", "$ like_regex 1", "$ like_regex $x", "$ like_regex \"a\" flag", "$ like_regex \"a\" flag i", "$ like_regex", "$.a.()", "$.abs(", "1.type()", "1.a", "$.1", "$.a[1 to]", "$[to 1]", "$[1 to 2 to 3]", "$.a b", "$.\"a\"\"b\"", "$ == 1 == 2", "$ < 1 < 2", "1 == 1 starts with \"a\"", "$ ? (@ == 1 == 2)", "($ == 1) + 1", "1 + ($ == 1)", "-($ == 1)", "$[$ == 1]", "true && false", "$.a && $.b", "1 && 2", "!true", "TRUE", "FALSE", "NULL", "True", "$ == TRUE", "$ == Null", "$x.", "$.$x", "$.a.$", "$$", "$.a$b", "$ ? (@ == 1))", "$.*.", "$.a[*", "$.a*]", "$ ? (@ == 1) (", "#", "$ # 1", "$ ; $", "$ = 1", "$ & $", "$ | $", "$ ~ 1", "$ ^ 1", "$ ! = 1", "$ < > 1", "$ > = 1", "$ = = 1", "$ & & $", "a", "a.b", ".a", "[0]", "$ . size ( ) ( )")
	// every construct whose rejection is decided in a grammar action or by a lexer helper (the
	// parser carries on after it), followed by everything that can follow a complete step:
	// the error must survive whatever the parser does with the half-built node
	actionErrors := []string{"$.decimal(1,2,3)", "$.decimal(1,2,3,4)", "$.a.decimal(- 1, 2, 3)", `$ like_regex "a" flag "z"`, `$ like_regex "(" `, `$ like_regex "a" flag "xq"x`,
		"$.decimal(99999999999999999999999, 1, 1)", `"\u0000"`, `$."\ud83d"`, "$.decimal(1e99999, 2, 3)", "$.decimal(1, 2, 3).decimal(1, 2, 3)", "$.**{1_}", "$.time(1_)", "0x", "1e"}
	// out-of-range literals may be accepted (as numerics) or rejected: never a panic, never both nil
	actionOpen := []string{"$.**{99999999999999999999}", "$.**{1 to 99999999999999999999}", "$.time(99999999999999999999)", "99999999999999999999999999", "1e99999", "0x1FFFFFFFFFFFFFFFFF", "$[0x1FFFFFFFFFFFFFFFFF]", "$.a[1e99999]", "$.**{0x10 to 99999999999999999999}"}
	continuations := []string{"", ".a", "[0]", "[*]", ".*", ".**", " ? (@ > 1)", ".size()", ".decimal(1,2,3)", " + 1", " == 1", " starts with \"a\"", " like_regex \"a\"", "[last]", ".a.b[1 to 2]", ".datetime()", ".keyvalue().key"}
	for _, a := range actionErrors {
		for _, c := range continuations {
			rej("error recorded in an action, then the parse goes on", a+c, "("+a+")"+c, "$ ? (exists("+a+c+"))", "-("+a+")"+c, "$["+a+c+"]", "("+a+c+") is unknown", a+c+" && 1 == 1", "1 == 1 || "+a+c+" == 1")
		}
	}
	for _, a := range actionOpen {
		for _, c := range continuations {
			neu("out-of-range literal, then the parse goes on", a+c, "("+a+")"+c, "$ ? (exists("+a+c+"))", "-("+a+")"+c, "$["+a+c+"]", "("+a+c+") is unknown")
		}
	}
	// characters that are neither ASCII punctuation of the syntax nor identifier characters may
	// not stand for anything outside a string: in particular the private-use code points whose
	// values coincide with the generated parser's token numbers (57346 = U+E002 and up)
	var odd []rune
	for r := rune(0xE000); r <= 0xE040; r++ {
		odd = append(odd, r)
	}
	odd = append(odd, 0xF8FF, 0xF0000, 0x10FFFD, 0x00A0, 0x2028, 0x2029, 0x3000, 0xFEFF, 0x00D7, 0x2212, 0x2260, 0x2264, 0xFF04, 0xFF20, 0x201C, 0x00AB, 0x20AC, 0xFFFD, 0xFFFE, 0x0085, 0x200B, 0x1F600)
	for _, r := range odd {
		x := string(r)
		rej("a character that no token can start with", x, "$"+x, "$ "+x+" 1", "$["+x+"]", "$."+x, "$.a"+x, "$ ? (@ "+x+" 1)", x+"$", "$ "+x, "$.a "+x+" $.b", "("+x+")", "$.a["+x+" to 1]", "$ ? ("+x+")", "1 "+x+" 1", "$.**{"+x+"}", "$.abs"+x+"()", x+" "+x)
		acc("any character inside a string, quoted key or comment", `"`+x+`"`, `$."`+x+`"`, `$"`+x+`"`, "$ /* "+x+" */")
	}
	// surrogate escapes: a sequence of escapes is valid exactly when it reads as (high low | non-surrogate)*
	{
		forms := [][3]string{{`\ud83d`, `\ude04`, `\u0041`}, {`\u{D83D}`, `\u{DE04}`, `\u{41}`}, {`\uD83D`, `\u{de04}`, `\u0041`}, {`\udbff`, `\udc00`, `\u{e000}`}, {`\ud800`, `\udfff`, `\ud7ff`}}
		var seqs [][]int
		var rec func(p []int)
		rec = func(p []int) {
			if len(p) > 0 {
				seqs = append(seqs, append([]int{}, p...))
			}
			if len(p) == 3 {
				return
			}
			for k := 0; k < 3; k++ {
				rec(append(p, k))
			}
		}
		rec(nil)
		for _, f := range forms {
			for _, sq := range seqs {
				txt, valid := "", true
				for i := 0; i < len(sq); i++ {
					txt += f[sq[i]]
				}
				for i := 0; i < len(sq); {
					switch {
					case sq[i] == 2:
						i++
					case sq[i] == 0 && i+1 < len(sq) && sq[i+1] == 1:
						i += 2
					default:
						valid = false
						i = len(sq)
					}
				}
				for _, in := range []string{`"` + txt + `"`, `$."` + txt + `"`, `$"` + txt + `"`, `$.a` + txt, `$ ? (@ starts with "x` + txt + `")`, `$ like_regex "` + txt + `"`} {
					if valid {
						acc("surrogate escapes forming pairs", in)
					} else {
						rej("lone or misordered surrogate escape", in)
					}
				}
			}
		}
	}
	// deep and long inputs: recursion depth and buffer handling (accepted, no panic, no hang)
	deep := 20000
	acc("deep or long input",
		strings.Repeat("-", deep)+"$", strings.Repeat("(", deep)+"1"+strings.Repeat(")", deep), "$"+strings.Repeat("[0]", deep), "$"+strings.Repeat(".a", deep),
		strings.Repeat("!(", deep)+"1==1"+strings.Repeat(")", deep), "$"+strings.Repeat("?(exists(@", deep/4)+strings.Repeat("))", deep/4), "1"+strings.Repeat("+1", deep),
		"1==1"+strings.Repeat("&&1==1", deep), strings.Repeat("$[", deep/2)+"0"+strings.Repeat("]", deep/2), `"`+strings.Repeat("a", 1<<20)+`"`, "$ /*"+strings.Repeat("*", 1<<20)+"*/",
		"$."+strings.Repeat("a", 1<<18), strings.Repeat("9", 18)+" + 0."+strings.Repeat("0", 5000)+"1")
	rej("deep or long malformed input", strings.Repeat("(", deep)+"1", "$"+strings.Repeat("[", deep), `"`+strings.Repeat("a", 1<<20), "$ /*"+strings.Repeat("*", 1<<20), strings.Repeat("9", 5000), "1e"+strings.Repeat("9", 5000))
	acc("structure", "$", "lax $", "strict $", "LAX $", "Strict $", "$.a", "$.a.b", `$."a b"`, "$[0]", "$[0,1]", "$[0 to 1]", "$[*]", "$.*", "$ ? (@ == 1)", "$?(@==1)", "$ ? (@.a == 1 && @.b == 2)", "$ == 1", "1 == 1", "(1 == 1)", "((1 == 1))", "!(1 == 1)", "!exists($)", "exists($)", "(1 == 1) is unknown", "((1 == 1)) is unknown", "$ starts with \"a\"", "$ starts with $x", "$ like_regex \"a\"", "1 + 1", "-$", "+$", "- $.a", "-1", "+1", "-1.5", "(1)", "((1))", "(1).type()", "(1 == 1).type()", "($.a).b", "(($.a).b).c", "$x", `$"x y"`, "$.a.size()", "$.a . size ( )", "true", "false", "null", "$.true", "$.null", "$.last", "$.lax", "$.strict", "$.exists", "$.is", "$.to", "$.with", "$.flag", "$.like_regex", "$.starts", "$.unknown", "$.abs", "$.keyvalue", "$.decimal", "$.datetime", "$.time_tz", "$.timestamp_tz", "\"a\"", "\"a\".type()", "$ ? (@ == 1) ? (@ == 2)", "$.a ? (@ > 1).b", "$ != 1", "$ <> 1", "$ <= 1", "$ >= 1", "$ < 1", "$ > 1", "1 + 2 * 3", "(1 + 2) * 3", "$[1 + 1]", "$[$.a]", "$[\"a\"]", "$[true]", "$ ? (@ == 1 || @ == 2 && @ == 3)", "$.a == $.b", "$x == $y", "($ == 1)", "1 .type()", "1.5.type()", "-1 .abs()", "- -1", "-(-1)", "+-+1", "- - $", "-(1+2)", "9223372036854775807", "-9223372036854775807", "$.abs", "$.a.size", `$.a\u0041`, `$.\u0061b`, `$.a\x41b`, `$.\x61`)
	return out
}

// hostileTokens feed the token-soup generator and the fuzz corpus.
var hostileTokens = []string{
	"$", "@", "last", "lax", "strict", ".", "..", "*", "**", "[", "]", "(", ")", "{", "}", "?", ",", " ", "\t", "\n",
	"to", "is", "unknown", "exists", "starts", "with", "like_regex", "flag", "true", "false", "null",
	"==", "!=", "<>", "<", "<=", ">", ">=", "&&", "||", "!", "+", "-", "/", "%", "/*", "*/",
	"a", "b", "key", `"a"`, `"`, `\`, `\u`, `\u{`, `\x`, `A`, `\ud83d`, `\ude04`, `\u{1F600}`, "$x", `$"x"`,
	"0", "1", "9", "00", "0x", "0b", "0o", "1e", "1e400", ".5", "5.", "_", "1_0", "0x1F", "9223372036854775808", "99999999999999999999", "1.5", "e", "E",
	".abs()", ".size()", ".type()", ".floor()", ".ceiling()", ".double()", ".keyvalue()", ".bigint()", ".boolean()", ".integer()", ".number()", ".string()",
	".decimal(", ".datetime(", ".date(", ".time(", ".time_tz(", ".timestamp(", ".timestamp_tz(",
	"\x00", "\xff", "\xc3", "é", "𝄞", " ", "\ufeff", `"i"`, `"x"`, `"q"`, `"("`, `"a{2,1}"`,
}

func genTokenSoup(t *rapid.T) string {
	n := rapid.IntRange(1, 14).Draw(t, "ntok")
	var b strings.Builder
	for i := 0; i < n; i++ {
		b.WriteString(hostileTokens[rapid.IntRange(0, len(hostileTokens)-1).Draw(t, "tok")])
	}
	return b.String()
}

// mutate applies one byte- or token-level mutation to a valid spelling.
func mutate(t *rapid.T, s string) string {
	if s == "" {
		return s
	}
	b := []byte(s)
	pos := rapid.IntRange(0, len(b)-1).Draw(t, "mpos")
	switch rapid.IntRange(0, 6).Draw(t, "mkind") {
	case 0: // delete a byte
		return string(append(b[:pos:pos], b[pos+1:]...))
	case 1: // duplicate a byte
		return string(append(b[:pos+1:pos+1], b[pos:]...))
	case 2: // replace a byte
		r := []byte("$@.*[](){}?,\"\\/+-%!<>=&|_09aexbo \n\x00\xff")
		b[pos] = r[rapid.IntRange(0, len(r)-1).Draw(t, "mrep")]
		return string(b)
	case 3: // truncate
		return string(b[:pos])
	case 4: // swap adjacent bytes
		if pos+1 < len(b) {
			b[pos], b[pos+1] = b[pos+1], b[pos]
		}
		return string(b)
	case 5: // insert a hostile token
		tok := hostileTokens[rapid.IntRange(0, len(hostileTokens)-1).Draw(t, "mtok")]
		return string(b[:pos]) + tok + string(b[pos:])
	default: // drop the tail and append a token
		tok := hostileTokens[rapid.IntRange(0, len(hostileTokens)-1).Draw(t, "mtok2")]
		return string(b[:pos]) + tok
	}
}

// BigPatternCase: a like_regex pattern of N characters, too long to carry in a replay file. Whatever Parse
// accepts must compile at execution time: syntax.Parse, which the validation used alone, skips the size limits
// for a literal (flag q) pattern that regexp.Compile enforces (D57).
type BigPatternCase struct {
	N     int    `json:"n"`
	Char  string `json:"char"`
	Flags string `json:"flags"`
}

var checkBigPattern = register("c04.bigpattern", func(c BigPatternCase) *Violation {
	in := `$ like_regex "` + strings.Repeat(c.Char, c.N) + `" flag "` + c.Flags + `"`
	what := fmt.Sprintf("$ like_regex \"%s x %d\" flag %q", c.Char, c.N, c.Flags)
	p, err, pan := ParseSafe(in)
	if pan != "" {
		return violf("Parse(%s) panicked: %.200s", what, pan)
	}
	if (p == nil) == (err == nil) {
		return violf("Parse(%s): exactly one of path and error must be nil", what)
	}
	if err != nil {
		if !errors.Is(err, path.ErrPath) || !errors.Is(err, parser.ErrParse) {
			return violf("Parse(%s) error does not wrap path.ErrPath and parser.ErrParse", what)
		}
		return nil
	}
	for _, doc := range []any{"b", strings.Repeat(c.Char, 3)} {
		if o := RunQuery(context.Background(), p, doc); o.Panic != "" {
			return violf("Parse accepts %s, but Query panics: %.200s (every accepted like_regex must compile at execution time)", what, o.Panic)
		} else if o.Class != EOK || len(o.Items) != 1 || o.Items[0] != false {
			return violf("%s on %q: want [false], got %s", what, doc, o)
		}
	}
	return nil
})

func TestC04(t *testing.T) {
	ev := newEv(t, "C04")
	ev.replayTier(t)
	_ = ev.quirk("unbounded_recursion_stack_overflow") // open finding D42: prints its KNOWN-FINDING line while the probe reproduces it
	record := func(class string, c ParseCase, f parseFacts) {
		in := c.bytes()
		// non-trivial: accepted, or a rejection that is not the empty input
		ev.Eval(class+"\x00"+in, f.accepted || len(in) > 1)
		if f.accepted {
			ev.Label(class + ":accepted")
			if f.hasRegex {
				ev.Label(class + ":accepted_with_like_regex")
			}
		} else {
			ev.Label(class + ":rejected")
		}
		ev.Sample(class, c)
	}

	t.Run("big_patterns", func(t *testing.T) {
		b := ev.enum(t)
		// 11,184,810 literal characters is the most Go's regexp compiles
		cs := []BigPatternCase{{11184810, "a", "q"}, {11184811, "a", "q"}, {11184811, "a", "iq"}, {12000000, ".", "q"}, {1<<25 + 16, "a", "q"}, {3000000, "é", "q"}, {11184811, "a", ""}, {4000000, "(", "q"}}
		for i, c := range cs {
			if !mine(i) {
				continue
			}
			ev.Eval(fmt.Sprintf("bigpattern:%d:%s:%s", c.N, c.Char, c.Flags), true)
			ev.Sample("big_patterns", c)
			if !b.Check("c04.bigpattern", c, checkBigPattern(c)) {
				return
			}
		}
		ev.Exhaustive("like_regex_patterns_around_the_size_limit", int64(len(cs)))
	})
	t.Run("nearmiss", func(t *testing.T) {
		b := ev.enum(t)
		cs := nearMisses()
		for i, c := range cs {
			if !mine(i) {
				continue
			}
			v, f := checkParseFacts(c)
			record("nearmiss", c, f)
			if !b.Check("c04.parse", c, v) {
				return
			}
		}
		ev.Exhaustive("constructed_near_misses_and_positive_controls", int64(len(cs)))
	})

	t.Run("truncations", func(t *testing.T) {
		// every prefix of every positive control: truncation at every offset
		b := ev.enum(t)
		i := 0
		for _, c := range nearMisses() {
			if !c.MustAccept {
				continue
			}
			in := c.bytes()
			if len(in) > 200 {
				continue // the deep/long controls are not truncated at every offset
			}
			for k := 0; k < len(in); k++ {
				i++
				if !mine(i) {
					continue
				}
				pc := mkParseCase(in[:k])
				v, f := checkParseFacts(pc)
				record("truncation", pc, f)
				if !b.Check("c04.parse", pc, v) {
					return
				}
			}
		}
		ev.Exhaustive("truncations_of_positive_controls", int64(i))
	})

	ev.rapidProp(t, "bytes", func(rt *rapid.T) {
		var in string
		switch rapid.IntRange(0, 2).Draw(rt, "src") {
		case 0:
			in = string(rapid.SliceOfN(rapid.Byte(), 0, 64).Draw(rt, "bytes"))
		case 1:
			in = rapid.StringOfN(rapid.RuneFrom([]rune("$@.*[](){}?,\"\\/+-%!<>=&|_019aexbolt \n")), 0, 40, -1).Draw(rt, "chars")
		default:
			in = genTokenSoup(rt)
		}
		c := mkParseCase(in)
		v, f := checkParseFacts(c)
		record("random", c, f)
		ev.Check(rt, "c04.parse", c, v)
	})

	ev.rapidProp(t, "mutants", func(rt *rapid.T) {
		p := GenPath(rt, GenCfg{MaxNodes: 10, HardErrPct: 10})
		in := p.Canon()
		if rapid.IntRange(0, 3).Draw(rt, "spell") > 0 {
			in = Spell(rt, p)
		}
		k := rapid.IntRange(0, 2).Draw(rt, "nmut")
		for i := 0; i < k; i++ {
			in = mutate(rt, in)
		}
		c := mkParseCase(in)
		if k == 0 {
			c.MustAccept, c.Why = true, "spelling of a generated well-formed path"
		}
		v, f := checkParseFacts(c)
		record(fmt.Sprintf("mutant%d", k), c, f)
		ev.Check(rt, "c04.parse", c, v)
	})
}

// FuzzParse is the coverage-guided driver of the same oracle (thorough tier).
func FuzzParse(f *testing.F) {
	for _, c := range nearMisses() {
		f.Add([]byte(c.bytes()))
	}
	for _, tok := range hostileTokens {
		f.Add([]byte("$" + tok))
	}
	f.Fuzz(func(t *testing.T, b []byte) {
		if len(b) > 4096 {
			return
		}
		c := mkParseCase(string(b))
		if v, _ := checkParseFacts(c); v != nil {
			t.Fatalf("%s", v.Msg)
		}
	})
}
