package checks

// Evidence accounting, replay files, violation reporting and the
// known-findings protocol shared by every check. Nothing in this file knows
// about a particular property.

import (
	"encoding/binary"
	"encoding/json"
	"fmt"
	"hash/fnv"
	"os"
	"path/filepath"
	"sort"
	"strconv"
	"strings"
	"sync"
	"testing"
	"time"

	"pgregory.net/rapid"
)

// ---------------------------------------------------------------------------
// environment

func envOr(k, def string) string {
	if v := os.Getenv(k); v != "" {
		return v
	}
	return def
}

func envInt(k string, def int) int {
	if v := os.Getenv(k); v != "" {
		if n, err := strconv.Atoi(v); err == nil {
			return n
		}
	}
	return def
}

func verifRoot() string { return envOr("VERIF_ROOT", "/verif") }
func tier() string      { return envOr("VERIF_TIER", "quick") }
func thorough() bool    { return tier() == "thorough" }

// sz scales a generated-size bound: the thorough tier explores paths with twice
// the node budget of the quick tier.
func sz(k int) int {
	if thorough() {
		return 2 * k
	}
	return k
}
func shard() int        { return envInt("VERIF_SHARD", 0) }
func nshards() int      { return max(1, envInt("VERIF_NSHARDS", 1)) }

// mine reports whether enumeration index i belongs to this shard.
func mine(i int) bool { return i%nshards() == shard() }

// shardLabel names the process in replay file names: the shard number, or "32" for the unsharded
// pass of the 32-bit build.
func shardLabel() string {
	if os.Getenv("VERIF_ARCH32") != "" {
		if nshards() > 1 {
			return fmt.Sprintf("32_%d", shard())
		}
		return "32"
	}
	return fmt.Sprint(shard())
}

// ---------------------------------------------------------------------------
// evidence

// Ev accumulates what one shard of one check actually covered.
type Ev struct {
	mu          sync.Mutex
	Prop        string
	start       time.Time
	evaluations int64
	nontriv     map[uint64]struct{}
	labels      map[string]int64
	samples     map[string][]any
	exhaustive  map[string]int64
	rapidRuns   map[string]int64
	violations  int
	kfCases     map[string]int64
	excluded    map[string]int64
	notes       []string
	flushed     bool
}

const samplesPerClass = 3

func newEv(t *testing.T, prop string) *Ev {
	e := &Ev{
		Prop: prop, start: time.Now(),
		nontriv: map[uint64]struct{}{}, labels: map[string]int64{},
		samples: map[string][]any{}, exhaustive: map[string]int64{},
		rapidRuns: map[string]int64{}, kfCases: map[string]int64{},
		excluded: map[string]int64{},
	}
	t.Cleanup(e.Flush)
	// probe every open finding listed for this property up front, so that its
	// KNOWN-FINDING line does not depend on which cases the generator draws
	for _, f := range loadFindings() {
		if f.Status != "open" || f.Quirk == "" {
			continue
		}
		for _, p := range f.Properties {
			if p == prop {
				e.quirk(f.Quirk)
			}
		}
	}
	return e
}

func hash64(s string) uint64 {
	h := fnv.New64a()
	_, _ = h.Write([]byte(s))
	return h.Sum64()
}

// Eval counts one executed case. key identifies the case (for distinctness),
// nontrivial says whether it meets the property's stated rule.
func (e *Ev) Eval(key string, nontrivial bool) {
	e.mu.Lock()
	defer e.mu.Unlock()
	e.evaluations++
	if nontrivial {
		e.nontriv[hash64(key)] = struct{}{}
	}
}

// Label counts a class of generated case (generator distribution).
func (e *Ev) Label(l string) {
	e.mu.Lock()
	e.labels[l]++
	e.mu.Unlock()
}

// Sample keeps up to samplesPerClass written-out cases per class.
func (e *Ev) Sample(class string, c any) {
	e.mu.Lock()
	defer e.mu.Unlock()
	if len(e.samples[class]) < samplesPerClass && len(e.samples) < 40 {
		e.samples[class] = append(e.samples[class], c)
	}
}

// LabelSample is Label + Sample.
func (e *Ev) LabelSample(class string, c any) {
	e.Label(class)
	e.Sample(class, c)
}

func (e *Ev) Exhaustive(name string, size int64) {
	if shard() != 0 {
		return // the enumeration is split over the shards; its size is reported once
	}
	if os.Getenv("VERIF_ARCH32") != "" {
		name += "@32bit_build"
	}
	e.mu.Lock()
	e.exhaustive[name] += size
	e.mu.Unlock()
}

func (e *Ev) Excluded(why string) {
	e.mu.Lock()
	e.excluded[why]++
	e.mu.Unlock()
}

func (e *Ev) KFCase(id string) {
	e.mu.Lock()
	e.kfCases[id]++
	e.mu.Unlock()
}

func (e *Ev) Note(s string) {
	e.mu.Lock()
	e.notes = append(e.notes, s)
	e.mu.Unlock()
}

// Flush writes the shard evidence where the driver asked for it.
func (e *Ev) Flush() {
	e.mu.Lock()
	defer e.mu.Unlock()
	if e.flushed {
		return
	}
	e.flushed = true
	out := os.Getenv("VERIF_EVIDENCE_OUT")
	if out == "" {
		return
	}
	hs := make([]byte, 0, 8*len(e.nontriv))
	for h := range e.nontriv {
		hs = binary.LittleEndian.AppendUint64(hs, h)
	}
	_ = os.WriteFile(out+".hashes", hs, 0o644)
	doc := map[string]any{
		"property_id":         e.Prop,
		"evaluations":         e.evaluations,
		"distinct_shard":      len(e.nontriv),
		"labels":              e.labels,
		"samples":             e.samples,
		"exhaustive":          e.exhaustive,
		"rapid_runs":          e.rapidRuns,
		"violations":          e.violations,
		"known_finding_cases": e.kfCases,
		"excluded_dont_care":  e.excluded,
		"notes":               e.notes,
		"wall_s":              time.Since(e.start).Seconds(),
	}
	b, err := json.MarshalIndent(doc, "", " ")
	if err != nil {
		b = []byte(fmt.Sprintf(`{"property_id":%q,"marshal_error":%q}`, e.Prop, err.Error()))
	}
	_ = os.WriteFile(out, b, 0o644)
}

// ---------------------------------------------------------------------------
// cases, replay, violations

// Violation describes one failed oracle.
type Violation struct {
	Msg string
}

func violf(format string, args ...any) *Violation {
	return &Violation{Msg: fmt.Sprintf(format, args...)}
}

// replayFile is the on-disk form of a case.
type replayFile struct {
	Property string          `json:"property"`
	Check    string          `json:"check"`
	Message  string          `json:"message,omitempty"`
	Data     json.RawMessage `json:"data"`
}

type caseRunner func(raw json.RawMessage) (*Violation, error)

var registry = map[string]caseRunner{}

// register makes a checkCase function replayable under name and returns it.
func register[T any](name string, f func(T) *Violation) func(T) *Violation {
	if _, dup := registry[name]; dup {
		panic("duplicate check name " + name)
	}
	registry[name] = func(raw json.RawMessage) (*Violation, error) {
		var c T
		if err := json.Unmarshal(raw, &c); err != nil {
			return nil, err
		}
		return f(c), nil
	}
	return f
}

func replayDir() string {
	return envOr("VERIF_REPLAY_DIR", filepath.Join(verifRoot(), "replays", "found"))
}

var printedViolation sync.Map

// saveReplay writes the case and prints the VIOLATION line (once per path).
func (e *Ev) saveReplay(check string, c any, v *Violation) string {
	e.mu.Lock()
	e.violations++
	e.mu.Unlock()
	data, err := json.Marshal(c)
	if err != nil {
		data = []byte(fmt.Sprintf("%q", fmt.Sprintf("%#v", c)))
	}
	rf := replayFile{Property: e.Prop, Check: check, Message: v.Msg, Data: data}
	b, _ := json.MarshalIndent(rf, "", " ")
	dir := replayDir()
	_ = os.MkdirAll(dir, 0o755)
	p := filepath.Join(dir, fmt.Sprintf("%s-%s-s%s.json", e.Prop, check, shardLabel()))
	_ = os.WriteFile(p, b, 0o644)
	if _, seen := printedViolation.LoadOrStore(p, true); !seen {
		fmt.Printf("VIOLATION property=%s replay=%s\n", e.Prop, p)
	}
	return p
}

// failer is satisfied by *testing.T and *rapid.T.
type failer interface {
	Fatalf(format string, args ...any)
	Errorf(format string, args ...any)
	Logf(format string, args ...any)
}

// Check evaluates v and, if non-nil, records the replay and fails t.
func (e *Ev) Check(t failer, check string, c any, v *Violation) {
	if v == nil {
		return
	}
	p := e.saveReplay(check, c, v)
	t.Fatalf("%s: %s\n  replay: %s", check, v.Msg, p)
}

// enumBudget stops an enumeration after a few violations so that a broken
// tree does not print thousands of lines.
type enumBudget struct {
	e    *Ev
	t    *testing.T
	left int
	n    int
}

func (e *Ev) enum(t *testing.T) *enumBudget {
	return &enumBudget{e: e, t: t, left: envInt("VERIF_ENUM_LIMIT", 3)}
}

// Check records v for an enumerated case; returns false when the enumeration
// should stop.
func (b *enumBudget) Check(check string, c any, v *Violation) bool {
	if v == nil {
		return true
	}
	b.n++
	b.e.mu.Lock()
	b.e.violations++
	b.e.mu.Unlock()
	data, _ := json.Marshal(c)
	rf := replayFile{Property: b.e.Prop, Check: check, Message: v.Msg, Data: data}
	out, _ := json.MarshalIndent(rf, "", " ")
	dir := replayDir()
	_ = os.MkdirAll(dir, 0o755)
	p := filepath.Join(dir, fmt.Sprintf("%s-%s-s%s-e%d.json", b.e.Prop, check, shardLabel(), b.n))
	_ = os.WriteFile(p, out, 0o644)
	fmt.Printf("VIOLATION property=%s replay=%s\n", b.e.Prop, p)
	b.t.Errorf("%s: %s\n  replay: %s", check, v.Msg, p)
	b.left--
	return b.left > 0
}

// runReplayFile re-executes a stored case with no generator involved.
func runReplayFile(p string) (*replayFile, *Violation, error) {
	b, err := os.ReadFile(p)
	if err != nil {
		return nil, nil, err
	}
	var rf replayFile
	if err := json.Unmarshal(b, &rf); err != nil {
		return nil, nil, err
	}
	run, ok := registry[rf.Check]
	if !ok {
		return &rf, nil, fmt.Errorf("unknown check %q in %s", rf.Check, p)
	}
	v, err := run(rf.Data)
	return &rf, v, err
}

// replayTier runs the committed replays of repaired defects for prop (the
// seconds-long regression tier). A fixed entry suppresses nothing.
func (e *Ev) replayTier(t *testing.T) {
	if shard() != 0 {
		return
	}
	files, _ := filepath.Glob(filepath.Join(verifRoot(), "replays", "fixed", e.Prop+"-*.json"))
	sort.Strings(files)
	n := 0
	for _, f := range files {
		rf, v, err := runReplayFile(f)
		if err != nil {
			t.Errorf("replay %s: %v", f, err)
			continue
		}
		n++
		e.Eval("replay:"+f, true)
		if v != nil {
			e.mu.Lock()
			e.violations++
			e.mu.Unlock()
			fmt.Printf("VIOLATION property=%s replay=%s\n", e.Prop, f)
			t.Errorf("regression of a repaired defect (%s): %s", rf.Check, v.Msg)
		}
	}
	e.mu.Lock()
	e.labels["replay_tier_cases"] += int64(n)
	e.mu.Unlock()
}

// ---------------------------------------------------------------------------
// rapid glue

// rapidProp runs prop under rapid.Check as subtest name and counts the
// invocations so the driver can tell a short run from a complete one.
func (e *Ev) rapidProp(t *testing.T, name string, prop func(rt *rapid.T)) {
	t.Run(name, func(t *testing.T) {
		rapid.Check(t, func(rt *rapid.T) {
			e.mu.Lock()
			e.rapidRuns[name]++
			e.mu.Unlock()
			prop(rt)
		})
	})
}

// ---------------------------------------------------------------------------
// known findings

type finding struct {
	ID         string   `json:"id"`
	Status     string   `json:"status"` // open | fixed
	Properties []string `json:"properties"`
	Quirk      string   `json:"quirk,omitempty"`
	What       string   `json:"what"`
	Site       string   `json:"site,omitempty"`
	Class      string   `json:"class,omitempty"`
	Commit     string   `json:"commit,omitempty"`
	Replay     string   `json:"replay,omitempty"`
}

type findingsFile struct {
	Findings []finding `json:"findings"`
}

var (
	kfOnce sync.Once
	kfList []finding
)

func loadFindings() []finding {
	kfOnce.Do(func() {
		b, err := os.ReadFile(envOr("VERIF_KNOWN_FINDINGS", filepath.Join(verifRoot(), "known_findings.json")))
		if err != nil {
			return
		}
		var ff findingsFile
		if json.Unmarshal(b, &ff) == nil {
			kfList = ff.Findings
		}
	})
	return kfList
}

// quirkProbes maps a quirk name to a probe that says whether the finding
// still reproduces on the tree under test.
var quirkProbes = map[string]func() bool{}

type quirkState struct {
	active  bool
	finding finding
}

var (
	quirkMu    sync.Mutex
	quirkCache = map[string]*quirkState{}
	kfPrinted  = map[string]bool{}
)

// quirk reports whether the open finding with this quirk name is listed in
// known_findings.json AND still reproduces. When it does, the KNOWN-FINDING
// line is printed once for the property being checked and the caller applies
// its narrowly scoped deviation; otherwise the full property is enforced.
func (e *Ev) quirk(name string) bool {
	quirkMu.Lock()
	defer quirkMu.Unlock()
	st, ok := quirkCache[name]
	if !ok {
		st = &quirkState{}
		for _, f := range loadFindings() {
			if f.Status == "open" && f.Quirk == name {
				probe := quirkProbes[name]
				if probe == nil {
					panic("no probe for quirk " + name)
				}
				st.finding = f
				st.active = safeProbe(probe)
				break
			}
		}
		quirkCache[name] = st
	}
	if st.active {
		key := e.Prop + "/" + st.finding.ID
		if !kfPrinted[key] {
			kfPrinted[key] = true
			listed := false
			for _, p := range st.finding.Properties {
				if p == e.Prop {
					listed = true
				}
			}
			if listed && shard() == 0 {
				fmt.Printf("KNOWN-FINDING: property=%s %s %s\n", e.Prop, st.finding.ID, oneLine(st.finding.What))
			}
		}
	}
	return st.active
}

func safeProbe(p func() bool) (r bool) {
	defer func() {
		if x := recover(); x != nil {
			r = true // a panic in the probe means the defect (or worse) is there
		}
	}()
	return p()
}

func oneLine(s string) string { return strings.Join(strings.Fields(s), " ") }
