package checks

// C10 — a filter keeps exactly the items for which its condition is true.

import (
	"encoding/json"
	"fmt"
	"reflect"
	"testing"

	"github.com/theory/sqljson/path/exec"
	"pgregory.net/rapid"
)

// FilterCase: prefix path P (from $), condition(s) over @, document.
type FilterCase struct {
	Strict bool   `json:"strict,omitempty"`
	Prefix *Node  `json:"prefix"` // chain after $
	Cond   *Node  `json:"cond"`
	Cond2  *Node  `json:"cond2,omitempty"` // second consecutive filter
	Doc    string `json:"doc"`
	Opts   Opts   `json:"opts"`
}

// rootToVar rewrites $ into the variable $root (so that a condition can be
// run stand-alone on an item while $ still denotes the whole document) and @
// at depth 0 into $.
func condStandalone(n *Node, depth int) *Node {
	if n == nil {
		return nil
	}
	c := *n
	switch {
	case n.K == KRoot:
		c.K, c.S = KVar, "root"
	case n.K == KCur && depth == 0:
		c.K = KRoot
	}
	d := depth
	if n.K == KFilter {
		d++
	}
	c.A = condStandalone(n.A, d)
	c.B = condStandalone(n.B, d)
	if n.Subs != nil {
		c.Subs = make([]Sub, len(n.Subs))
		for i, s := range n.Subs {
			c.Subs[i] = Sub{From: condStandalone(s.From, depth), To: condStandalone(s.To, depth)}
		}
	}
	c.Next = condStandalone(n.Next, depth)
	return &c
}

type filterFacts struct {
	items    int
	outcomes string
	skipped  string
}

var c10Ev *Ev

var checkFilter = register("c10.filter", func(c FilterCase) *Violation {
	v, _ := checkFilterFacts(c)
	return v
})

func sameContainer(a, b any) bool {
	switch x := a.(type) {
	case map[string]any:
		y, ok := b.(map[string]any)
		return ok && reflect.ValueOf(x).Pointer() == reflect.ValueOf(y).Pointer()
	case []any:
		y, ok := b.([]any)
		return ok && len(x) == len(y) && (len(x) == 0 || reflect.ValueOf(x).Pointer() == reflect.ValueOf(y).Pointer())
	}
	return true
}

func checkFilterFacts(c FilterCase) (*Violation, filterFacts) {
	var f filterFacts
	pPath := &Path{Strict: c.Strict, Root: &Node{K: KRoot, Next: c.Prefix.Clone()}}
	mkFiltered := func(conds ...*Node) *Path {
		root := &Node{K: KRoot, Next: c.Prefix.Clone()}
		end := root.chainEnd()
		for _, cd := range conds {
			end.Next = &Node{K: KFilter, A: cd.Clone()}
			end = end.Next
		}
		return &Path{Strict: c.Strict, Root: root}
	}
	prP, err := prepare(ExecCase{Path: pPath.Canon(), Doc: c.Doc, Opts: c.Opts})
	if err != nil {
		return nil, f
	}
	fPath := mkFiltered(c.Cond)
	prF, err := prepare(ExecCase{Path: fPath.Canon(), Doc: c.Doc, Opts: c.Opts})
	if err != nil {
		return nil, f
	}
	// the filtered query must see the very same document object
	prF.doc, prF.vars = prP.doc, prP.vars
	if prP.orderOpen() || prF.orderOpen() {
		f.skipped = "member_order_open"
		return nil, f
	}
	// below .** structural errors are skipped also inside the condition (documented .** behaviour), so the
	// stand-alone predicate check differs there: the per-item question is put to the reference model as
	// "strict $.**{0} ? (C)" over the item (depth 0 is the item itself, with the same skipping switched on)
	belowAny := false
	if c.Strict {
		for n := c.Prefix; n != nil; n = n.Next {
			if n.K == KAny {
				belowAny = true
			}
		}
		if !belowAny && c.Prefix.Has(func(n *Node) bool { return n.K == KAny }) {
			f.skipped = "strict_prefix_with_nested_recursive_descent"
			return nil, f
		}
	}
	base := RunQuery(prP.ctx, prP.p, prP.doc, prP.opts(false)...)
	if base.Panic != "" || isD9(base.Err) {
		f.skipped = "prefix_panics_or_D9"
		return nil, f
	}
	got := RunQuery(prF.ctx, prF.p, prF.doc, prF.opts(false)...)
	if got.Panic != "" || isD9(got.Err) {
		f.skipped = "panics_or_D9"
		return nil, f
	}
	if base.Class != EOK {
		if got.Class == EOK {
			return violf("Query(%q) fails (%v) but Query(%q) succeeds with %v on %s", pPath.Canon(), base.Err, fPath.Canon(), RenderSeq(got.Items, true), c.Doc), f
		}
		f.skipped = "prefix_fails"
		return nil, f
	}
	// one level of unwrapping in lax mode
	var items []any
	for _, it := range base.Items {
		if arr, ok := it.([]any); ok && !c.Strict {
			items = append(items, arr...)
		} else {
			items = append(items, it)
		}
	}
	f.items = len(items)
	// evaluate the condition as a predicate check on each item
	evalOn := func(cond *Node, x any) (string, error) {
		sp := &Path{Strict: c.Strict, Root: condStandalone(cond, 0)}
		o := c.Opts
		pr, err := prepare(ExecCase{Path: sp.Canon(), Doc: "null", Opts: o})
		if err != nil {
			return "?", nil
		}
		vars := exec.Vars{}
		for k, v := range prP.vars {
			vars[k] = v
		}
		vars["root"] = prP.doc
		pr.vars = vars
		// the reference model decides the outcome where it can (independent of the
		// executor's predicate code); the implementation's own stand-alone
		// predicate check is the fallback for behaviour the model leaves open
		qev := c10Ev
		if qev == nil {
			qev = &Ev{Prop: "C10"} // replay mode
		}
		var quirks []string
		if qev.quirk("exists_unary_sign_nonnumeric") {
			quirks = append(quirks, "D17b")
		}
		d19 := qev.quirk("subscript_drops_null")
		if belowAny {
			ap := &Path{Strict: true, Root: &Node{K: KRoot, Next: &Node{K: KAny, First: 0, Last: 0, Next: &Node{K: KFilter, A: condStandalone(cond, 1)}}}}
			mr := RunModel(ap, x, o, map[string]any(vars), d19, quirks...)
			switch {
			case (mr.Err != nil && mr.Err.dontCare) || mr.SawD9 || mr.OrderOpen:
				return "?", nil
			case mr.Err != nil && mr.Err.hard:
				return "H", fmt.Errorf("%s", mr.Err.msg)
			case mr.Err != nil:
				return "?", nil
			case len(mr.Items) == 1:
				return "T", nil
			}
			return "F", nil // false or unknown: dropped either way
		}
		if mr := RunModel(sp, x, o, map[string]any(vars), d19, quirks...); (mr.Err == nil || !mr.Err.dontCare) && !mr.SawD9 && !mr.OrderOpen {
			switch {
			case mr.Err != nil && mr.Err.hard:
				return "H", fmt.Errorf("%s", mr.Err.msg)
			case mr.Err != nil || len(mr.Items) != 1:
				return "?", nil
			case mr.Items[0] == true:
				return "T", nil
			case mr.Items[0] == false:
				return "F", nil
			}
			return "U", nil
		}
		q := RunQuery(pr.ctx, pr.p, x, pr.opts(false)...)
		switch {
		case q.Panic != "" || isD9(q.Err):
			return "?", nil
		case q.Class == EHard:
			return "H", q.Err
		case q.Class != EOK || len(q.Items) != 1:
			return "?", nil
		case q.Items[0] == true:
			return "T", nil
		case q.Items[0] == false:
			return "F", nil
		}
		return "U", nil
	}
	var want []any
	var hard error
	for _, x := range items {
		o, e := evalOn(c.Cond, x)
		f.outcomes += o
		switch o {
		case "?":
			f.skipped = "standalone_condition_not_evaluable"
			return nil, f
		case "H":
			if hard == nil {
				hard = e
			}
		case "T":
			want = append(want, x)
		}
	}
	at := func() string { return fPath.Canon() + " on " + c.Doc }
	if hard != nil {
		if got.Class != EHard {
			return violf("the condition of %s raises a non-suppressible error (%v) on an item (outcomes %s), but the query returns %s", at(), hard, f.outcomes, got), f
		}
		return nil, f
	}
	if got.Class != EOK {
		return violf("no item makes the condition of %s fail non-suppressibly (outcomes %s), yet the query fails: %v", at(), f.outcomes, got.Err), f
	}
	if len(got.Items) != len(want) {
		return violf("%s: items %v have outcomes %s, so %v must be kept, but the query returned %v", at(), RenderSeq(items, true), f.outcomes, RenderSeq(want, true), RenderSeq(got.Items, true)), f
	}
	for i := range want {
		if Render(want[i], false) != Render(got.Items[i], false) || !sameContainer(want[i], got.Items[i]) {
			return violf("%s: item %d kept by the filter is %s, want the unaltered %s (outcomes %s)", at(), i, Render(got.Items[i], false), Render(want[i], false), f.outcomes), f
		}
	}
	// strict: consecutive filters equal one filter on the conjunction
	if c.Strict && c.Cond2 != nil {
		two := mkFiltered(c.Cond, c.Cond2)
		one := mkFiltered(&Node{K: KBin, S: "&&", A: c.Cond.Clone(), B: c.Cond2.Clone()})
		pr2, e2 := prepare(ExecCase{Path: two.Canon(), Doc: c.Doc, Opts: c.Opts})
		pr1, e1 := prepare(ExecCase{Path: one.Canon(), Doc: c.Doc, Opts: c.Opts})
		if e1 == nil && e2 == nil && !pr1.orderOpen() && !pr2.orderOpen() {
			r2 := RunQuery(pr2.ctx, pr2.p, pr2.doc, pr2.opts(false)...)
			r1 := RunQuery(pr1.ctx, pr1.p, pr1.doc, pr1.opts(false)...)
			if r1.Panic == "" && r2.Panic == "" && !isD9(r1.Err) && !isD9(r2.Err) && r1.Class != EHard && r2.Class != EHard {
				if r1.Class != r2.Class || !sameSeq(RenderSeq(r1.Items, true), RenderSeq(r2.Items, true)) {
					return violf("strict consecutive filters differ from one filter on the conjunction: %q -> %s but %q -> %s on %s", two.Canon(), r2, one.Canon(), r1, c.Doc), f
				}
			}
		}
	}
	return nil, f
}

// filterTableCases: conditions whose operand selects several elements (subscript
// lists and ranges, wildcards, keyvalue) of which only some satisfy a further
// step, over items in which the satisfying element sits first, last or nowhere.
func filterTableCases() []FilterCase {
	conds := []string{
		`exists(@[0, 1] ? (@ > 1))`, `exists(@[0 to 1] ? (@ > 1))`, `exists(@[1, 0] ? (@ > 1))`, `exists(@[0 to last] ? (@ > 1))`, `exists(@[*] ? (@ > 1))`,
		`exists(@.a[0 to last] ? (@ > 1))`, `exists(@.a[0, 1] ? (@ > 1))`, `exists(@.a[*] ? (@ > 1))`, `exists(@.keyvalue() ? (@.value > 1))`, `exists(@.keyvalue().value ? (@ > 1))`,
		`exists(@[0, 1].a)`, `exists(@[0, 5])`, `exists(@[5, 0])`, `exists(@.a)`, `exists(@ ? (@[0] > 1))`, `exists(@[last])`, `exists(@[0] ? (@ > 1))`, `exists(@[1] ? (@ > 1))`,
		`!exists(@[0, 1] ? (@ > 1))`, `!exists(@.a[0 to last] ? (@ > 1))`, `(exists(@[0, 1] ? (@ > 1))) is unknown`, `exists(@[0, 1] ? (@ > 1)) || exists(@[5])`, `exists(@[5]) || exists(@[0, 1] ? (@ > 1))`,
		`@[0, 1] > 1`, `@[0 to 1] > 1`, `@[1, 0] > 1`, `@.a[*] > 1`, `@[*] > 1 && @[*] < 1`, `(@[0, 1] > 1) is unknown`, `@[0] > @[1]`, `@[0, 5] > 1`, `@[0, 1] == @[1, 0]`, `@[*] > 1`, `@.a[0 to last] > 1`,
		`exists(@[0, 1] ? (@ > 1).type())`, `exists(@[0, 1].abs() ? (@ > 1))`, `exists(-@[0, 1])`, `exists((@[0, 1] ? (@ > 1)) + 1)`, `exists(@.*[0] ? (@ > 1))`, `exists(@.a.b)`, `exists(@[0 to 1] ? (exists(@ ? (@ > 1))))`,
		`@.keyvalue().value > 1`, `@.keyvalue().key == "a"`, `exists(@.keyvalue() ? (@.key == "b" && @.value > 1))`, `@[0, 1] starts with "a"`, `@[*] like_regex "^a"`, `exists(@[0, 1] ? (@ starts with "a"))`,
		// a right operand rooted at $ that depends on the item through a subscript
		`@[0] == $[1][@[1]]`, `@[0] < $[0][@[1]]`, `@[1] >= $[2][@[0]]`, `@.a == $[1].a[@.b]`, `exists($[0][@[0]])`, `@[0] == $[@[1]][0]`, `$[@[1]][0] == @[0]`,
		// the right operand of starts with is never unwrapped: $p is an array, $q a string
		// an operand that yields an item before it fails (strict exists() looks at everything)
		`exists(@[*].double())`, `!exists(@[*].double())`, `(exists(@[*].integer())) is unknown`, `exists(@[*].abs())`, `exists(@[0 to last].a.double())`, `exists(@[*].double()) || @[0] == 1`, `exists(@.a[*].abs())`, `exists(@[*] ? (@.double() > 0))`,
		`@[*] starts with $p`, `@[0] starts with $p`, `@[*] starts with $q`, `(@[*] starts with $p) is unknown`, `exists(@[*] ? (@ starts with $p))`, `@[*] starts with $p || @[*] starts with $q`, `@[1] starts with $q`,
	}
	docs := []string{
		`[[5,0],[0,5],[5,5],[0,0],[5],[]]`,
		`[{"a":[5,0]},{"a":[0,7]},{"a":[]},{"a":[0,0]},{"a":5}]`,
		`[{"a":5,"b":0},{"a":0,"b":5},{"a":0},{"b":7}]`,
		`[["ab","x"],["x","ab"],[1,"ab"],["ab",1]]`,
		`[[{"a":1},{"b":2}],[{"b":2},{"a":1}],[[5,0],[0]]]`,
		`[[5,0],[0,5],[5,5],[0,0],[1,1],[0,1]]`,
		`[{"a":[5,7],"b":0},{"a":7,"b":1},{"a":5,"b":1},{"a":7,"b":0}]`,
	}
	var out []FilterCase
	for _, cd := range conds {
		p, err, pan := ParseSafe("$[*] ? (" + cd + ")")
		if err != nil || pan != "" {
			panic(fmt.Sprintf("harness: %q does not parse: %v %s", cd, err, pan))
		}
		tree := PathFromAST(p.AST)
		cond := tree.Root.Next.Next.A
		for _, d := range docs {
			for _, strict := range []bool{false, true} {
				// (below .** the structural errors of the condition are skipped as well: the oracle asks the model)
				for _, pfx := range []*Node{{K: KAnyArr}, {K: KIdx, Subs: []Sub{{From: &Node{K: KInt, I: 0}, To: &Node{K: KLast}}}}, {K: KAny, First: 1, Last: 1}, {K: KAny, First: 0, Last: 2}} {
					out = append(out, FilterCase{Strict: strict, Prefix: pfx, Cond: cond, Doc: d, Opts: Opts{HasVars: true, Vars: map[string]string{"p": `["a"]`, "q": `"a"`}}})
				}
			}
		}
	}
	return out
}

func TestC10(t *testing.T) {
	ev := newEv(t, "C10")
	c10Ev = ev
	ev.replayTier(t)
	t.Run("multi_element_operands", func(t *testing.T) {
		b := ev.enum(t)
		cs := filterTableCases()
		for i, c := range cs {
			if !mine(i) {
				continue
			}
			v, f := checkFilterFacts(c)
			key, _ := json.Marshal(c)
			ev.Eval(string(key), f.skipped == "" && f.items >= 2)
			if f.skipped != "" {
				ev.Label("skipped:" + f.skipped)
			} else {
				ev.Label("checked")
			}
			ev.Sample("table:"+f.skipped, map[string]string{"filter": (&Path{Strict: c.Strict, Root: &Node{K: KRoot, Next: &Node{K: KFilter, A: c.Cond}}}).Canon(), "doc": c.Doc, "outcomes": f.outcomes})
			if !b.Check("c10.filter", c, v) {
				return
			}
		}
		ev.Exhaustive("multi_element_operand_conditions_by_documents_by_mode", int64(len(cs)))
	})
	ev.rapidProp(t, "random", func(rt *rapid.T) {
		cfg := GenCfg{MaxNodes: 10, HardErrPct: 8, NoWildKey: true, NoKeyvalue: true}.withDefaults()
		if rapid.IntRange(0, 9).Draw(rt, "anyok") < 7 {
			cfg.NoAny = true
		}
		g := &pgen{t: rt, c: cfg}
		doc := GenDoc(rt, DocCfg{ScalarPct: 3, Rich: rapid.IntRange(0, 9).Draw(rt, "rich") < 8}, "doc")
		useNumber := rapid.Bool().Draw(rt, "walknum")
		strict := g.chance(45, "strict")
		var prefix *Node
		var reach []any
		if rapid.IntRange(0, 9).Draw(rt, "walk") < 8 {
			// follow the document so that the prefix yields items
			prefix, reach = GenWalk(rt, MustDecode(doc.Text(), useNumber), 3, strict, "w")
		}
		if prefix == nil {
			g.budget = 1 + g.n(sz(4), "plen")
			prefix = g.chain(gctx{}, 1+g.n(3, "pchain"))
		}
		mkCond := func(l string) *Node {
			g.budget = 1 + g.n(sz(7), l+"size")
			if reach != nil {
				return Normalize(GenCondFor(rt, reach, g, l))
			}
			return Normalize(g.pred(gctx{inFilter: true}))
		}
		cond := mkCond("c")
		var cond2 *Node
		if g.chance(40, "second") {
			cond2 = mkCond("d")
		}
		uses := func(n *Node) bool { return n != nil && n.Has(func(x *Node) bool { return x.K == KVar }) }
		c := FilterCase{Strict: strict, Prefix: Normalize(prefix), Cond: cond, Cond2: cond2, Doc: doc.Text(),
			Opts: genOpts(rt, DocCfg{}, defVars, uses(prefix) || uses(cond) || uses(cond2))}
		c.Opts.UseNumber = useNumber
		v, f := checkFilterFacts(c)
		key, _ := json.Marshal(c)
		mixed := false
		for i := 1; i < len(f.outcomes); i++ {
			if f.outcomes[i] != f.outcomes[0] {
				mixed = true
			}
		}
		hasU := false
		for _, ch := range f.outcomes {
			if ch == 'U' || ch == 'H' {
				hasU = true
			}
		}
		ev.Eval(string(key), f.skipped == "" && f.items >= 2 && (mixed || hasU))
		if f.skipped != "" {
			ev.Label("skipped:" + f.skipped)
		} else {
			ev.Label("checked")
			switch {
			case f.items == 0:
				ev.Label("prefix_items:0")
			case f.items == 1:
				ev.Label("prefix_items:1")
			default:
				ev.Label("prefix_items:2+")
			}
		}
		p := &Path{Strict: c.Strict, Root: &Node{K: KRoot, Next: &Node{K: KFilter, A: c.Cond}}}
		ev.Sample("random:"+f.skipped, map[string]string{"prefix": (&Path{Root: &Node{K: KRoot, Next: c.Prefix}}).Canon(), "filter": p.Canon(), "doc": c.Doc, "outcomes": f.outcomes})
		ev.Check(rt, "c10.filter", c, v)
	})
}
