package checks

// Grammar-directed, typed generators for abstract paths and JSON documents.
// Every random choice is a rapid draw, so shrinking and replay work.

import (
	"bytes"
	"encoding/json"
	"fmt"
	"sort"
	"strconv"
	"strings"

	"pgregory.net/rapid"
)

// GenCfg tunes the path generator for a check.
type GenCfg struct {
	MaxNodes int
	Keys     []string
	VarNames []string
	Strs     []string
	Ints     []int64
	Nums     []float64

	// feature switches (true = disabled)
	NoVars, NoArith, NoMethods, NoDatetime, NoRegex, NoKeyvalue, NoPredItem bool
	NoAny, NoFilter, NoIdx, NoLiteralRoot, NoDecimal, NoStartsWith          bool
	NoWildKey                                                               bool
	NoRoot                                                                  bool // no $ (used for root-independent step sequences)
	AccessorsOnly                                                           bool // C07: accessors and filters over them
	ErrBias                                                                 bool // more type mismatches
	PredTopPct                                                              int  // share of predicate check expressions at top level
	HardErrPct                                                              int  // share of constructs that raise non-suppressible errors
}

var (
	defKeys  = []string{"a", "b", "c", "key", "value", "id"}
	defVars  = []string{"x", "y", "z", "missing"}
	defStrs  = []string{"a", "b", "abc", "ab", "", "1", "2.5", "true", "2015-08-01", "12:34:56", "12:34:56+05:30", "2015-08-01T12:34:56", "2015-08-01T12:34:56+05:30", "2015-08-01 12:34:56.789-04", "A\nb", "x"}
	defInts  = []int64{0, 1, 2, 3, 4, 10, 2147483647, 2147483648, 9223372036854775807}
	defNums  = []float64{0.5, 1.5, 2.5, 2.0, 0.0, 1e3, 1e21, 1e-7, 1e308, 9007199254740993.0}
	defDTs   = []string{"datetime", "date", "time", "time_tz", "timestamp", "timestamp_tz"}
	methods  = []string{"abs", "size", "type", "floor", "ceiling", "double", "keyvalue", "bigint", "boolean", "integer", "number", "string"}
	rxPats   = []string{"^a", "b$", "a.c", "^[ab]+$", "A", "a|x", ".", "^$", "\\d+", "a.b"}
	rxFlagsL = []string{"", "i", "s", "m", "q", "is", "iq", "sm", "ism", "qs", "ii"}
)

func (c GenCfg) withDefaults() GenCfg {
	if c.MaxNodes == 0 {
		c.MaxNodes = 12
	}
	if c.Keys == nil {
		c.Keys = defKeys
	}
	if c.VarNames == nil {
		c.VarNames = defVars
	}
	if c.Strs == nil {
		c.Strs = defStrs
	}
	if c.Ints == nil {
		c.Ints = defInts
	}
	if c.Nums == nil {
		c.Nums = defNums
	}
	if c.PredTopPct == 0 {
		c.PredTopPct = 25
	}
	return c
}

// uniform draws an index in [0,k) that is (nearly) uniformly distributed.
// rapid's integer generators are deliberately biased towards small values,
// which would distort every weighted choice; a Fibonacci hash of a rapid
// uint64 keeps the draw inside the library (replay and shrinking work, 0
// shrinks to alternative 0) while spreading the choices evenly.
func uniform(t *rapid.T, k int, label string) int {
	if k <= 1 {
		return 0
	}
	u := rapid.Uint64().Draw(t, label)
	return int(((u * 0x9E3779B97F4A7C15) >> 33) % uint64(k))
}

type pgen struct {
	t      *rapid.T
	c      GenCfg
	budget int
}

func (g *pgen) n(k int, label string) int {
	if k <= 1 {
		return 0
	}
	return uniform(g.t, k, label)
}
func (g *pgen) chance(pct int, label string) bool     { return g.n(100, label) < pct }
func (g *pgen) pick(ss []string, label string) string { return ss[g.n(len(ss), label)] }

type gctx struct {
	inFilter bool // @ legal
	inSub    bool // last legal
}

// GenPath draws a well-formed abstract path (already in normal form).
func GenPath(t *rapid.T, cfg GenCfg) *Path {
	cfg = cfg.withDefaults()
	g := &pgen{t: t, c: cfg}
	g.budget = 2 + g.n(sz(cfg.MaxNodes-1), "size")
	p := &Path{Strict: g.chance(45, "strict")}
	if !cfg.AccessorsOnly && g.chance(cfg.PredTopPct, "predtop") {
		p.Root = g.pred(gctx{})
	} else {
		p.Root = g.expr(gctx{})
	}
	p.Root = Normalize(p.Root)
	return p
}

// weighted choice
func (g *pgen) choose(label string, ws ...int) int {
	tot := 0
	for _, w := range ws {
		tot += w
	}
	if tot == 0 {
		return 0
	}
	r := g.n(tot, label)
	for i, w := range ws {
		if r < w {
			return i
		}
		r -= w
	}
	return len(ws) - 1
}

func off(disabled bool, w int) int {
	if disabled {
		return 0
	}
	return w
}

func (g *pgen) expr(cx gctx) *Node {
	g.budget--
	c := g.c
	deep := g.budget > 0
	if c.AccessorsOnly {
		return g.primaryChain(cx)
	}
	switch g.choose("expr",
		70,                            // primary + chain
		off(c.NoArith || !deep, 12),   // binary arithmetic
		off(c.NoArith || !deep, 6),    // unary sign
		off(c.NoPredItem || !deep, 5), // (predicate).chain
	) {
	case 1:
		n := &Node{K: KBin, S: g.pick(arithOps, "aop"), A: g.expr(cx), B: g.expr(cx)}
		if g.chance(25, "achain") {
			n.Next = g.chain(cx, 1+g.n(2, "aclen"))
		}
		return n
	case 2:
		n := &Node{K: KUn, S: g.pick([]string{"-", "+"}, "sign"), A: g.expr(cx)}
		if g.chance(25, "uchain") {
			n.Next = g.chain(cx, 1+g.n(2, "uclen"))
		}
		return n
	case 3:
		n := g.pred(cx)
		n.Next = g.chain(cx, 1+g.n(2, "pclen"))
		return n
	}
	return g.primaryChain(cx)
}

func (g *pgen) primaryChain(cx gctx) *Node {
	c := g.c
	var head *Node
	wCur, wLast := 0, 0
	if cx.inFilter {
		wCur = 60
	}
	if cx.inSub {
		wLast = 40
	}
	lit := off(c.NoLiteralRoot || c.AccessorsOnly, 1)
	wRoot := 40
	if c.NoRoot {
		wRoot = 0
		if wCur == 0 {
			lit = 1
		}
	}
	switch g.choose("prim",
		wRoot, wCur, wLast,
		off(c.NoVars || c.AccessorsOnly, 8),
		lit*6, lit*10, lit*5, lit*3, // str int num bool/null
	) {
	case 0:
		head = &Node{K: KRoot}
	case 1:
		head = &Node{K: KCur}
	case 2:
		head = &Node{K: KLast}
	case 3:
		head = &Node{K: KVar, S: g.pick(c.VarNames, "var")}
	case 4:
		head = &Node{K: KStr, S: g.pick(c.Strs, "str")}
	case 5:
		head = &Node{K: KInt, I: c.Ints[g.n(len(c.Ints), "int")]}
	case 6:
		head = &Node{K: KNum, F: c.Nums[g.n(len(c.Nums), "num")]}
	default:
		head = &Node{K: []string{KTrue, KFalse, KNull}[g.n(3, "const")]}
	}
	maxLen := 3
	if head.K == KRoot || head.K == KCur || head.K == KVar {
		maxLen = 4
	} else if g.chance(60, "litnochain") {
		maxLen = 0
	}
	if maxLen > 0 {
		l := g.n(maxLen+1, "clen")
		if l > g.budget+1 {
			l = max(0, g.budget+1)
		}
		head.Next = g.chain(cx, l)
	}
	return head
}

func (g *pgen) chain(cx gctx, l int) *Node {
	var first, last *Node
	for i := 0; i < l; i++ {
		a := g.accessor(cx)
		if first == nil {
			first = a
		} else {
			last.Next = a
		}
		last = a
	}
	return first
}

func (g *pgen) accessor(cx gctx) *Node {
	g.budget--
	c := g.c
	deep := g.budget > 0
	ao := c.AccessorsOnly
	switch g.choose("acc",
		34,                                       // .key
		off(c.NoWildKey, 8),                      // .*
		12,                                       // [*]
		off(c.NoAny, 6),                          // .**
		off(c.NoIdx, 12),                         // [subs]
		off(c.NoFilter || !deep, 12),             // ?()
		off(c.NoMethods || ao, 16),               // .method()
		off(c.NoDecimal || c.NoMethods || ao, 3), // .decimal()
		off(c.NoDatetime || ao, 6),               // datetime methods
	) {
	case 0:
		return &Node{K: KKey, S: g.pick(c.Keys, "key")}
	case 1:
		return &Node{K: KAnyKey}
	case 2:
		return &Node{K: KAnyArr}
	case 3:
		return g.anyNode()
	case 4:
		return g.idx(cx)
	case 5:
		return &Node{K: KFilter, A: g.pred(gctx{inFilter: true, inSub: cx.inSub})}
	case 6:
		ms := methods
		m := g.pick(ms, "meth")
		if m == "keyvalue" && c.NoKeyvalue {
			m = "type"
		}
		return &Node{K: KMethod, S: m}
	case 7:
		n := &Node{K: KDecimal}
		switch g.choose("decargs", 2, 4, 6) {
		case 1:
			n.A = &Node{K: KInt, I: g.decPrec()}
		case 2:
			n.A = &Node{K: KInt, I: g.decPrec()}
			n.B = &Node{K: KInt, I: g.decScale()}
		}
		return n
	default:
		n := &Node{K: KDT, S: g.pick(defDTs, "dt")}
		switch n.S {
		case "datetime":
			if g.chance(g.c.HardErrPct, "dttemplate") {
				n.A = &Node{K: KStr, S: "YYYY-MM-DD"}
			}
		case "date":
		default:
			if g.chance(35, "dtprec") {
				n.A = &Node{K: KInt, I: []int64{0, 1, 2, 3, 6, 7, 9}[g.n(7, "prec")]}
			}
		}
		return n
	}
}

func (g *pgen) decPrec() int64 {
	if g.chance(g.c.HardErrPct, "badprec") {
		return []int64{0, 1001, 2147483648}[g.n(3, "badprecv")]
	}
	return []int64{1, 2, 3, 5, 10, 15, 38}[g.n(7, "precv")]
}

func (g *pgen) decScale() int64 {
	if g.chance(g.c.HardErrPct, "badscale") {
		return []int64{-1001, 1001, 2147483648}[g.n(3, "badscalev")]
	}
	return []int64{0, 1, 2, -1, 3, -2}[g.n(6, "scalev")]
}

func (g *pgen) anyNode() *Node {
	n := &Node{K: KAny}
	b := func(l string) int64 { return int64(g.n(4, l)) }
	switch g.choose("anyshape", 5, 3, 3, 1, 2, 1) {
	case 0:
		n.First, n.Last = 0, -1
	case 1:
		k := b("anyk")
		n.First, n.Last = k, k
	case 2:
		a := b("anya")
		n.First, n.Last = a, a+b("anyd")
	case 3:
		n.First, n.Last = -1, -1
	case 4:
		n.First, n.Last = b("anyf"), -1
	default:
		n.First, n.Last = -1, b("anyl")
	}
	return n
}

func (g *pgen) idx(cx gctx) *Node {
	n := &Node{K: KIdx}
	k := 1 + g.choose("nsubs", 6, 3, 1)
	for i := 0; i < k; i++ {
		s := Sub{From: g.bound(cx)}
		if g.chance(35, "range") {
			s.To = g.bound(cx)
		}
		n.Subs = append(n.Subs, s)
	}
	return n
}

func (g *pgen) bound(cx gctx) *Node {
	sub := gctx{inFilter: cx.inFilter, inSub: true}
	switch g.choose("bound", 55, 15, 8, off(g.c.AccessorsOnly || g.budget <= 0, 10), off(g.c.AccessorsOnly, 6)) {
	case 0:
		return &Node{K: KInt, I: int64(g.n(5, "bi"))}
	case 1:
		return &Node{K: KLast}
	case 2:
		return &Node{K: KBin, S: "-", A: &Node{K: KLast}, B: &Node{K: KInt, I: int64(g.n(3, "lk"))}}
	case 3:
		return g.expr(sub)
	default:
		return &Node{K: KNum, F: []float64{0.5, 1.9, -0.5, 1.0, 2.5}[g.n(5, "bf")]}
	}
}

func (g *pgen) pred(cx gctx) *Node {
	g.budget--
	c := g.c
	deep := g.budget > 0
	if c.AccessorsOnly {
		// comparisons of accessor paths with literals, and exists
		switch g.choose("apred", 60, 20, off(!deep, 10), off(!deep, 10)) {
		case 0:
			return &Node{K: KBin, S: g.pick(cmpOps, "cmp"), A: g.primaryChain(cx), B: g.literal()}
		case 1:
			return &Node{K: KExists, A: g.primaryChain(cx)}
		case 2:
			return &Node{K: KBin, S: g.pick([]string{"&&", "||"}, "conn"), A: g.pred(cx), B: g.pred(cx)}
		default:
			return &Node{K: KUn, S: "!", A: g.pred(cx)}
		}
	}
	switch g.choose("pred",
		45,
		off(!deep, 14), off(!deep, 7), off(!deep, 6),
		12,
		off(c.NoStartsWith, 6),
		off(c.NoRegex, 6),
	) {
	case 1:
		return &Node{K: KBin, S: g.pick([]string{"&&", "||"}, "conn"), A: g.pred(cx), B: g.pred(cx)}
	case 2:
		return &Node{K: KUn, S: "!", A: g.pred(cx)}
	case 3:
		return &Node{K: KIsUnknown, A: g.pred(cx)}
	case 4:
		return &Node{K: KExists, A: g.expr(cx)}
	case 5:
		n := &Node{K: KBin, S: "starts with", A: g.expr(cx)}
		if !c.NoVars && g.chance(25, "swvar") {
			n.B = &Node{K: KVar, S: g.pick(c.VarNames, "swv")}
		} else {
			n.B = &Node{K: KStr, S: g.pick([]string{"a", "ab", "", "2015", "x"}, "sws")}
		}
		return n
	case 6:
		return &Node{K: KRegex, A: g.expr(cx), S: g.pick(rxPats, "rx"), Flags: g.pick(rxFlagsL, "rxf")}
	}
	n := &Node{K: KBin, S: g.pick(cmpOps, "cmp"), A: g.expr(cx)}
	if g.chance(55, "cmplit") {
		n.B = g.literal()
	} else {
		n.B = g.expr(cx)
	}
	return n
}

func (g *pgen) literal() *Node {
	c := g.c
	switch g.choose("lit", 40, 15, 25, 10, 10) {
	case 0:
		return &Node{K: KInt, I: int64(g.n(5, "li"))}
	case 1:
		return &Node{K: KNum, F: c.Nums[g.n(len(c.Nums), "ln")]}
	case 2:
		return &Node{K: KStr, S: g.pick(c.Strs, "ls")}
	case 3:
		return &Node{K: []string{KTrue, KFalse}[g.n(2, "lb")]}
	default:
		return &Node{K: KNull}
	}
}

// ---------------------------------------------------------------------------
// JSON documents

// JV is a JSON value kept in a form that remembers number spelling and
// member order, so that the text is a pure function of the draws.
type JV struct {
	K   byte // n=null b=bool #=number s=string a=array o=object
	B   bool
	Num string
	S   string
	Arr []JV
	Obj []JMember
}

type JMember struct {
	Key string
	Val JV
}

func (v JV) Text() string {
	var b strings.Builder
	v.write(&b)
	return b.String()
}

func (v JV) write(b *strings.Builder) {
	switch v.K {
	case 'n':
		b.WriteString("null")
	case 'b':
		b.WriteString(strconv.FormatBool(v.B))
	case '#':
		b.WriteString(v.Num)
	case 's':
		q, _ := json.Marshal(v.S)
		b.Write(q)
	case 'a':
		b.WriteByte('[')
		for i, e := range v.Arr {
			if i > 0 {
				b.WriteByte(',')
			}
			e.write(b)
		}
		b.WriteByte(']')
	case 'o':
		b.WriteByte('{')
		for i, m := range v.Obj {
			if i > 0 {
				b.WriteByte(',')
			}
			q, _ := json.Marshal(m.Key)
			b.Write(q)
			b.WriteByte(':')
			m.Val.write(b)
		}
		b.WriteByte('}')
	}
}

// DocCfg tunes the document generator.
type DocCfg struct {
	MaxDepth  int
	Keys      []string
	Strs      []string
	Nums      []string
	MaxArr    int
	MaxObj    int
	HugeNums  bool // numbers outside float64 (C05 only)
	ScalarPct int  // chance that the top value is a scalar
	Rich      bool // the top value is a non-empty container of containers/scalars
}

var (
	defDocNums = []string{"0", "1", "2", "3", "-1", "10", "1.5", "2.5", "-0.5", "0.5", "2.0", "1e2", "2147483647", "2147483648", "-2147483649", "9223372036854775807", "-9223372036854775808", "9007199254740993", "1e308", "5e-324", "0.1"}
	hugeNums   = []string{"1e400", "-1e400", "9223372036854775808", "123456789012345678901234567890", "1e-400", "-9223372036854775809", "0.1e309", "1" + strings.Repeat("0", 320), "-9" + strings.Repeat("9", 330), "0." + strings.Repeat("0", 400) + "1"}
)

func (c DocCfg) withDefaults() DocCfg {
	if c.MaxDepth == 0 {
		c.MaxDepth = 4
		if thorough() {
			c.MaxDepth = 5
		}
	}
	if c.Keys == nil {
		c.Keys = defKeys
	}
	if c.Strs == nil {
		c.Strs = defStrs
	}
	if c.Nums == nil {
		c.Nums = defDocNums
	}
	if c.MaxArr == 0 {
		c.MaxArr = 4
		if thorough() {
			c.MaxArr = 5
		}
	}
	if c.MaxObj == 0 {
		c.MaxObj = 3
	}
	if c.ScalarPct == 0 {
		c.ScalarPct = 12
	}
	return c
}

// GenDoc draws a JSON document.
func GenDoc(t *rapid.T, cfg DocCfg, label string) JV {
	cfg = cfg.withDefaults()
	d := &dgen{t: t, c: cfg, label: label}
	if cfg.Rich {
		return d.rich(cfg.MaxDepth)
	}
	if d.n(100, "topscalar") < cfg.ScalarPct {
		return d.scalar()
	}
	return d.value(cfg.MaxDepth)
}

type dgen struct {
	t     *rapid.T
	c     DocCfg
	label string
}

func (d *dgen) n(k int, l string) int {
	if k <= 1 {
		return 0
	}
	return uniform(d.t, k, d.label+l)
}

// rich builds an array of 2-4 elements (or an object whose members are such
// arrays) whose elements are mostly objects over the shared key alphabet.
func (d *dgen) rich(depth int) JV {
	arr := func() JV {
		k := 2 + d.n(3, "rlen")
		v := JV{K: 'a'}
		homog := d.n(100, "rhomog") < 60
		for i := 0; i < k; i++ {
			if homog || d.n(100, "relobj") < 50 {
				o := JV{K: 'o'}
				used := map[string]bool{}
				for j := 0; j < 1+d.n(2, "rmem"); j++ {
					key := d.c.Keys[d.n(min(3, len(d.c.Keys)), "rkey")]
					if used[key] {
						continue
					}
					used[key] = true
					if d.n(100, "rnest") < 25 {
						o.Obj = append(o.Obj, JMember{Key: key, Val: d.value(depth - 2)})
					} else {
						o.Obj = append(o.Obj, JMember{Key: key, Val: d.scalar()})
					}
				}
				v.Arr = append(v.Arr, o)
			} else {
				v.Arr = append(v.Arr, d.value(depth-2))
			}
		}
		return v
	}
	if d.n(100, "rtop") < 55 {
		return arr()
	}
	o := JV{K: 'o'}
	o.Obj = append(o.Obj, JMember{Key: d.c.Keys[d.n(min(3, len(d.c.Keys)), "rk1")], Val: arr()})
	if d.n(100, "rsecond") < 40 {
		k2 := d.c.Keys[(3+d.n(3, "rk2"))%len(d.c.Keys)]
		o.Obj = append(o.Obj, JMember{Key: k2, Val: d.value(depth - 1)})
	}
	return o
}

func (d *dgen) scalar() JV {
	switch r := d.n(100, "sk"); {
	case r < 12:
		return JV{K: 'n'}
	case r < 24:
		return JV{K: 'b', B: d.n(2, "b") == 1}
	case r < 64:
		if d.c.HugeNums && d.n(100, "huge") < 20 {
			return JV{K: '#', Num: hugeNums[d.n(len(hugeNums), "hn")]}
		}
		return JV{K: '#', Num: d.c.Nums[d.n(len(d.c.Nums), "num")]}
	default:
		return JV{K: 's', S: d.c.Strs[d.n(len(d.c.Strs), "str")]}
	}
}

func (d *dgen) value(depth int) JV {
	if depth <= 0 {
		return d.scalar()
	}
	switch r := d.n(100, "vk"); {
	case r < 40:
		return d.scalar()
	case r < 70:
		k := d.n(d.c.MaxArr+1, "alen")
		v := JV{K: 'a', Arr: make([]JV, 0, k)}
		for i := 0; i < k; i++ {
			v.Arr = append(v.Arr, d.value(depth-1))
		}
		return v
	default:
		k := d.n(d.c.MaxObj+1, "olen")
		v := JV{K: 'o'}
		used := map[string]bool{}
		for i := 0; i < k; i++ {
			key := d.c.Keys[d.n(len(d.c.Keys), "okey")]
			if used[key] {
				continue
			}
			used[key] = true
			v.Obj = append(v.Obj, JMember{Key: key, Val: d.value(depth - 1)})
		}
		return v
	}
}

// Decode turns JSON text into Go values, numbers as float64 or json.Number.
func Decode(text string, useNumber bool) (any, error) {
	dec := json.NewDecoder(bytes.NewReader([]byte(text)))
	if useNumber {
		dec.UseNumber()
	}
	var v any
	if err := dec.Decode(&v); err != nil {
		return nil, fmt.Errorf("decode %q: %w", text, err)
	}
	return v, nil
}

// MustDecode is Decode for texts the harness generated itself.
func MustDecode(text string, useNumber bool) any {
	v, err := Decode(text, useNumber)
	if err != nil {
		panic(err)
	}
	return v
}

// maxMembers returns the largest member count of any object in v.
func maxMembers(v any) int {
	m := 0
	switch v := v.(type) {
	case map[string]any:
		m = len(v)
		for _, e := range v {
			m = max(m, maxMembers(e))
		}
	case []any:
		for _, e := range v {
			m = max(m, maxMembers(e))
		}
	}
	return m
}

// GenVars draws a variables map as JSON text per variable.
func GenVars(t *rapid.T, cfg DocCfg, names []string) map[string]string {
	out := map[string]string{}
	for _, n := range names {
		if n == "missing" {
			continue
		}
		if rapid.IntRange(0, 99).Draw(t, "hasvar"+n) < 80 {
			c := cfg
			c.MaxDepth = 2
			c.ScalarPct = 60
			out[n] = GenDoc(t, c, "var"+n).Text()
		}
	}
	return out
}

func sortedKeys[V any](m map[string]V) []string {
	ks := make([]string, 0, len(m))
	for k := range m {
		ks = append(ks, k)
	}
	sort.Strings(ks)
	return ks
}

// ---------------------------------------------------------------------------
// document-directed generation: paths that actually reach data

// litFor builds a literal node denoting the scalar v (nil if v is a container).
func litFor(v any) *Node {
	switch v := v.(type) {
	case nil:
		return &Node{K: KNull}
	case bool:
		if v {
			return &Node{K: KTrue}
		}
		return &Node{K: KFalse}
	case string:
		return &Node{K: KStr, S: v}
	case float64:
		if v == float64(int64(v)) && v >= 0 && v < 1e15 {
			return &Node{K: KInt, I: int64(v)}
		}
		if v == float64(int64(v)) && v < 0 && v > -1e15 {
			return &Node{K: KInt, I: int64(v)}
		}
		return &Node{K: KNum, F: v}
	case json.Number:
		if i, err := v.Int64(); err == nil {
			return &Node{K: KInt, I: i}
		}
		if f, err := v.Float64(); err == nil {
			return &Node{K: KNum, F: f}
		}
	}
	return nil
}

// walkStep applies an accessor to items the way lax mode roughly does; it
// only steers generation and is not an oracle.
func walkStep(items []any, a *Node) []any {
	var out []any
	for _, it := range items {
		switch a.K {
		case KKey:
			if arr, ok := it.([]any); ok {
				for _, e := range arr {
					if m, ok := e.(map[string]any); ok {
						if v, ok := m[a.S]; ok {
							out = append(out, v)
						}
					}
				}
			} else if m, ok := it.(map[string]any); ok {
				if v, ok := m[a.S]; ok {
					out = append(out, v)
				}
			}
		case KAnyArr:
			if arr, ok := it.([]any); ok {
				out = append(out, arr...)
			} else {
				out = append(out, it)
			}
		case KAnyKey:
			if m, ok := it.(map[string]any); ok {
				for _, k := range sortedKeys(m) {
					out = append(out, m[k])
				}
			} else if arr, ok := it.([]any); ok {
				for _, e := range arr {
					if m, ok := e.(map[string]any); ok {
						for _, k := range sortedKeys(m) {
							out = append(out, m[k])
						}
					}
				}
			}
		case KIdx:
			if arr, ok := it.([]any); ok && len(arr) > 0 {
				out = append(out, arr[0])
			}
		}
	}
	return out
}

// GenWalk draws an accessor chain that follows the structure of doc, and
// returns it with the (approximate) items it reaches.
func GenWalk(t *rapid.T, doc any, maxSteps int, strict bool, label string) (*Node, []any) {
	n := func(k int, l string) int {
		if k <= 1 {
			return 0
		}
		return uniform(t, k, label+l)
	}
	items := []any{doc}
	var first, last *Node
	steps := n(maxSteps+1, "steps")
	for i := 0; i < steps; i++ {
		var cands []*Node
		for _, it := range items {
			switch v := it.(type) {
			case map[string]any:
				for _, k := range sortedKeys(v) {
					cands = append(cands, &Node{K: KKey, S: k})
				}
				if len(v) > 0 {
					cands = append(cands, &Node{K: KAnyKey})
				}
			case []any:
				cands = append(cands, &Node{K: KAnyArr}, &Node{K: KAnyArr})
				if !strict {
					for _, e := range v {
						if m, ok := e.(map[string]any); ok && len(m) > 0 {
							cands = append(cands, &Node{K: KAnyKey}) // lax: .* unwraps the array first
							break
						}
					}
				}
				if len(v) > 0 {
					cands = append(cands, &Node{K: KIdx, Subs: []Sub{{From: &Node{K: KInt, I: 0}, To: &Node{K: KLast}}}})
					for _, e := range v {
						if m, ok := e.(map[string]any); ok {
							for _, k := range sortedKeys(m) {
								cands = append(cands, &Node{K: KKey, S: k})
							}
						}
					}
				}
			}
		}
		if strict {
			// strict mode: a step must apply to every item
			var ok []*Node
			for _, cnd := range cands {
				all := true
				for _, it := range items {
					switch cnd.K {
					case KKey:
						m, isObj := it.(map[string]any)
						if !isObj {
							all = false
						} else if _, has := m[cnd.S]; !has {
							all = false
						}
					case KAnyArr:
						if _, isArr := it.([]any); !isArr {
							all = false
						}
					case KAnyKey:
						if _, isObj := it.(map[string]any); !isObj {
							all = false
						}
					case KIdx:
						if arr, isArr := it.([]any); !isArr || len(arr) == 0 {
							all = false
						}
					}
				}
				if all {
					ok = append(ok, cnd)
				}
			}
			cands = ok
		}
		if len(cands) == 0 {
			break
		}
		a := cands[n(len(cands), "cand")].Clone()
		next := walkStep(items, a)
		if a.K == KIdx {
			next = nil
			for _, it := range items {
				if arr, ok := it.([]any); ok {
					next = append(next, arr...)
				}
			}
		}
		if len(next) == 0 {
			break
		}
		items = next
		if first == nil {
			first = a
		} else {
			last.Next = a
		}
		last = a
	}
	return first, items
}

// GenCondFor draws a condition over @ that is related to the given items, so
// that true / false / unknown outcomes all occur.
func GenCondFor(t *rapid.T, items []any, g *pgen, label string) *Node {
	n := func(k int, l string) int {
		if k <= 1 {
			return 0
		}
		return uniform(t, k, label+l)
	}
	var flat []any
	for _, it := range items {
		if arr, ok := it.([]any); ok {
			flat = append(flat, arr...)
		} else {
			flat = append(flat, it)
		}
	}
	targeted := func() *Node {
		if len(flat) == 0 {
			return g.pred(gctx{inFilter: true})
		}
		x := flat[n(len(flat), "item")]
		op := cmpOps[n(len(cmpOps), "op")]
		if m, ok := x.(map[string]any); ok && len(m) > 0 {
			ks := sortedKeys(m)
			k := ks[n(len(ks), "key")]
			lhs := &Node{K: KCur, Next: &Node{K: KKey, S: k}}
			if l := litFor(m[k]); l != nil {
				return &Node{K: KBin, S: op, A: lhs, B: l}
			}
			return &Node{K: KExists, A: lhs}
		}
		if l := litFor(x); l != nil {
			if s, ok := x.(string); ok && len(s) > 0 && n(3, "sw") == 0 {
				return &Node{K: KBin, S: "starts with", A: &Node{K: KCur}, B: &Node{K: KStr, S: s[:1]}}
			}
			return &Node{K: KBin, S: op, A: &Node{K: KCur}, B: l}
		}
		return &Node{K: KBin, S: op, A: &Node{K: KCur, Next: &Node{K: KMethod, S: "size"}}, B: &Node{K: KInt, I: int64(n(3, "size"))}}
	}
	switch r := n(100, "shape"); {
	case r < 45:
		return targeted()
	case r < 60:
		return &Node{K: KBin, S: []string{"&&", "||"}[n(2, "conn")], A: targeted(), B: targeted()}
	case r < 68:
		return &Node{K: KUn, S: "!", A: targeted()}
	case r < 75:
		return &Node{K: KBin, S: []string{"&&", "||"}[n(2, "conn2")], A: targeted(), B: g.pred(gctx{inFilter: true})}
	}
	return g.pred(gctx{inFilter: true})
}
