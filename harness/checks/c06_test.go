package checks

// C06 — Query, First, Exists, Match and ExistsOrMatch tell one story.

import (
	"context"
	"fmt"
	"testing"

	"github.com/theory/sqljson/path"
	"pgregory.net/rapid"
)

func init() {
	quirkProbes["exists_unary_sign_nonnumeric"] = func() bool {
		p, err := path.Parse(`-"a"`)
		if err != nil {
			return false
		}
		q := RunQuery(context.Background(), p, nil)
		e := RunExists(context.Background(), p, nil)
		return q.Class == ESupp && e.Class == EOK && e.Bool
	}
}

// d17bClass: lax path containing a unary +/- without accessor chain that is
// the root of the path or the operand of exists() - the places where it is the
// last node executed in existence mode.
func d17bClass(p *Path) bool {
	if p.Strict {
		return false
	}
	isSign := func(n *Node) bool { return n != nil && n.K == KUn && n.S != "!" && n.Next == nil }
	if isSign(p.Root) {
		return true
	}
	return p.Root.Has(func(n *Node) bool { return n.K == KExists && isSign(n.A) })
}

type storyFacts struct {
	nontrivial bool
	d17b, d9   bool
	open       bool
}

var c06Ev *Ev

var checkStory = register("c06.story", func(c ExecCase) *Violation {
	v, _ := checkStoryFacts(c)
	return v
})

func checkStoryFacts(c ExecCase) (v *Violation, f storyFacts) {
	pr, err := prepare(c)
	if err != nil {
		return nil, f
	}
	ev := c06Ev
	if ev == nil {
		ev = &Ev{Prop: "C06"}
	}
	open := pr.orderOpen()
	f.open = open
	verbose := pr.observe(false)
	silent := pr.observe(true)
	for _, o := range []Outcome{verbose.Query, verbose.First, verbose.Exists, verbose.Match, verbose.EoM, silent.Query, silent.First, silent.Exists, silent.Match, silent.EoM} {
		if o.Panic != "" {
			return nil, f // C05's business
		}
		if isD9(o.Err) {
			if ev.quirk("datetime_vs_nondatetime_invalid") {
				f.d9 = true
				return nil, f
			}
		}
		if o.Class != EOK || len(o.Items) > 0 || o.Item != nil || o.Bool {
			f.nontrivial = true
		}
	}
	f.nontrivial = f.nontrivial && pr.tree.Root.Count() >= 2
	inD17b := d17bClass(pr.tree)
	for _, m := range []struct {
		name string
		o    Obs
	}{{"verbose", verbose}, {"silent", silent}} {
		at := fmt.Sprintf("[%s] %q on %s", m.name, c.Path, c.Doc)
		q, fi, ex, ma, eom := m.o.Query, m.o.First, m.o.Exists, m.o.Match, m.o.EoM
		qItems := RenderSeq(q.Items, true) // keyvalue ids are C16's business (open finding D30 makes chained ones unstable)
		if fi.Class != EOK && fi.Item != nil {
			return violf("%s: First returned both an item and an error", at), f
		}
		if q.Class != EOK && q.Items != nil {
			return violf("%s: Query returned both items and an error", at), f
		}
		if ex.Class != EOK && ex.Bool {
			return violf("%s: Exists returned true together with an error", at), f
		}
		if open && hasPredicate(pr.tree.Root) {
			// lax short-circuits make even the value of a predicate (and which error is met)
			// depend on the member order of each run: the entry points are not comparable
			continue
		}
		if open && m.name == "silent" {
			// a silent run stops at the first suppressed error, and with an open
			// member order two runs may stop at different points: their partial
			// results are not comparable
			continue
		}

		// First = first item of Query, same error
		if !open {
			if fi.Class != q.Class {
				return violf("%s: First class %s but Query class %s (%v / %v)", at, fi.Class, q.Class, fi.Err, q.Err), f
			}
			want := "null"
			if len(qItems) > 0 {
				want = qItems[0]
			}
			if q.Class == EOK && Render(fi.Item, true) != want {
				return violf("%s: First = %s but Query = %v", at, Render(fi.Item, true), qItems), f
			}
		} else if q.Class == EOK && fi.Class == EOK {
			got := Render(fi.Item, true)
			if len(qItems) == 0 && got != "null" {
				return violf("%s: First = %s but Query is empty", at, got), f
			}
			if len(qItems) > 0 && !contains(qItems, got) {
				return violf("%s: First = %s is not among Query's items %v", at, got, qItems), f
			}
		}

		// Match = f(Query)
		if !open || (q.Class == ma.Class) || (q.Class == EOK) {
			switch {
			case q.Class != EOK:
				if !open && ma.Class != q.Class {
					return violf("%s: Query class %s but Match class %s (%v)", at, q.Class, ma.Class, ma.Err), f
				}
			case len(q.Items) == 1 && isBool(q.Items[0]):
				if ma.Class != EOK || ma.Bool != q.Items[0].(bool) {
					return violf("%s: Query = %v but Match = %v, %v", at, qItems, ma.Bool, ma.Err), f
				}
			case len(q.Items) == 1 && q.Items[0] == nil:
				if ma.Class != ENull || ma.Bool {
					return violf("%s: Query = [null] but Match = %v, %v (want false, NULL)", at, ma.Bool, ma.Err), f
				}
			default:
				wantClass := ESupp
				if m.name == "silent" {
					wantClass = ENull
				}
				if !open || len(q.Items) != 1 {
					if ma.Class != wantClass || ma.Bool {
						return violf("%s: Query = %v (not a single boolean) but Match = %v, class %s (want %s)", at, qItems, ma.Bool, ma.Class, wantClass), f
					}
				}
			}
		}

		// ExistsOrMatch dispatches on IsPredicate
		ref, refName := ex, "Exists"
		if pr.p.IsPredicate() {
			ref, refName = ma, "Match"
		}
		if !open && (eom.Class != ref.Class || eom.Bool != ref.Bool) {
			return violf("%s: ExistsOrMatch = %v/%s but %s = %v/%s (IsPredicate=%v)", at, eom.Bool, eom.Class, refName, ref.Bool, ref.Class, pr.p.IsPredicate()), f
		}

		// Exists never reports true when a complete evaluation yields no item
		if ex.Class == EOK && ex.Bool && !open {
			sq := silent.Query
			if sq.Class == EOK && len(sq.Items) == 0 {
				if inD17b && ev.quirk("exists_unary_sign_nonnumeric") {
					f.d17b = true
				} else {
					return violf("%s: Exists = true but the complete (silent) evaluation yields no item; verbose Query: %v", at, verbose.Query), f
				}
			}
		}
	}
	if open && hasPredicate(pr.tree.Root) {
		return nil, f
	}
	// When (verbose) Query succeeds, Exists says whether its result is non-empty
	if verbose.Query.Class == EOK {
		want := len(verbose.Query.Items) > 0
		for _, e := range []struct {
			n string
			o Outcome
		}{{"verbose", verbose.Exists}, {"silent", silent.Exists}} {
			if e.o.Class != EOK || e.o.Bool != want {
				return violf("Query(%q, %s) succeeded with %d items but %s Exists = %v, %v", c.Path, c.Doc, len(verbose.Query.Items), e.n, e.o.Bool, e.o.Err), f
			}
		}
	}
	// In strict mode Exists never hides an error that Query reports
	if pr.tree.Strict {
		for _, m := range []struct {
			name string
			o    Obs
		}{{"verbose", verbose}, {"silent", silent}} {
			q, ex := m.o.Query, m.o.Exists
			if open && m.name == "silent" {
				continue
			}
			if q.Class == ESupp || q.Class == EHard {
				bad := ex.Class == EOK || ex.Class == ENull
				if !open && ex.Class != q.Class {
					bad = true
				}
				if bad {
					return violf("[%s] strict %q on %s: Query fails with %s (%v) but Exists = %v, class %s", m.name, c.Path, c.Doc, q.Class, q.Err, ex.Bool, ex.Class), f
				}
			}
		}
	}
	return nil, f
}

func isBool(v any) bool { _, ok := v.(bool); return ok }

// errorPositionCases: an erroring element at each array position, hard errors
// inside filters, arithmetic on mixed arrays.
func errorPositionCases() []ExecCase {
	var out []ExecCase
	elems := []string{`1`, `"a"`, `{"a":1}`, `null`, `[2]`}
	var docs []string
	for _, a := range elems {
		for _, b := range elems {
			docs = append(docs, fmt.Sprintf("[%s,%s]", a, b))
			for _, c := range elems[:3] {
				docs = append(docs, fmt.Sprintf("[%s,%s,%s]", a, b, c))
			}
		}
	}
	paths := []string{
		"$[*].a", "$[*] ? (@.a == 1)", "-$[*]", "+$[*]", "$[*].abs()", "$[*].a.abs()", "$[*] + 1", "$[0] + $[1]", "$[*] ? (@ == $missing)",
		"$[*] ? (@ == 1 || @ == $missing)", "$[*] ? (@ == $missing || @ == 1)", "$[*] ? (@.a == 1 && @ == $missing)", "$[*] ? (exists(@ ? (@ == $missing)))",
		"$[*].double()", "$[*].integer()", "$[*].keyvalue()", "$[*].keyvalue().value", "$[0,1].a", "$[1,0].a", "$[0 to 1].a", "$[*].size()", "$[*].type()", "$[*][0]", "$[*][1]",
		"$[*] ? (@.double() > 0)", "$[*] ? (@.a > 0).a", "$[*].a ? (@ > 0)", "$.**.a", "$.**{1}.a", "$[*] ? (@.date() > \"2000-01-01\".date())", "$[*].datetime(\"YYYY\")",
		"$[*] == 1", "$[*].a == 1", "exists($[*].a)", "exists($[*] ? (@ == $missing))", "($[*].a == 1) is unknown", "-$[*] == -1", "$[*].decimal(0)", "$[*] ? (@.decimal(0) == 1)",
		"$[last]", "$[last + 1]", "$[2]", "$[$[0]]", "$[*].a.b", "$[*].*", "$.*", "$.a", "$[*] ? (@ starts with \"a\")", "$[*] ? (@ like_regex \"a\")", "$[*].string()", "$[*].boolean()", "-$[*].a", "$[*].floor().type()",
	}
	for _, p := range paths {
		for _, d := range docs {
			for _, strict := range []string{"", "strict "} {
				out = append(out, ExecCase{Path: strict + p, Doc: d, Opts: Opts{TZ: true}})
			}
		}
	}
	return out
}

// producerCases: every step that can emit several items, followed by a step
// that rejects some of them (first / middle / last), so that existence-mode
// shortcuts, loop exits and status hand-back are exercised at every position.
func producerCases() []ExecCase {
	producers := []string{"$[*]", "$[0,1,2]", "$[0 to 2]", "$[0 to last]", "$[2,1,0]", "$.*", "$.**", "$.**{1}", "$.**{1 to 2}", "$.keyvalue().value", "$.a", "$.a[*]", "$.a.*", "-$[*]", "+$[*]", "(-$[*])", "(-$.a)",
		"$[*].abs()", "$[*].double()", "$[*].string()", "$.a.floor()", "$[*].keyvalue().value", "$.x.y", "$[*].x.y", "$.**.y", "$.**{2}.y", "$[*].*", "($[0] + 1)", "($[*].a[0] * 2)"}
	followers := []string{"", " ? (@ > 1)", " ? (@ == 1)", " ? (@ < 3)", " ? (@ == 2)", " ? (@.a == 1)", " ? (@.y == 1)", ".a", ".y", "[0]", "[1]", ".double()", ".size()", ".keyvalue()", " ? (exists(@.y))", ".abs() ? (@ > 1)", " ? (@ > 1).type()"}
	docs := []string{`[1,2,3]`, `[3,2,1]`, `[2,1,2]`, `[1,"x",3]`, `["x",2,3]`, `[1,2,"x"]`, `{"a":[1,2,3]}`, `{"a":[3,"x",1]}`, `{"a":1,"b":2}`, `{"a":2,"b":1}`, `[{"a":1},{"a":2}]`, `[{"a":2},{"a":1}]`,
		`[{"x":{"y":1}},{"z":2}]`, `[{"z":2},{"x":{"y":1}}]`, `{"x":{"y":1}}`, `[{"a":[1,2]},{"a":[3]}]`, `[[1,2],[3]]`, `{"a":{"p":1,"q":[2,3]}}`, `[{"y":1},{"y":2}]`}
	var out []ExecCase
	for _, p := range producers {
		for _, f := range followers {
			for _, d := range docs {
				for _, strict := range []string{"", "strict "} {
					out = append(out, ExecCase{Path: strict + p + f, Doc: d})
				}
			}
		}
	}
	return out
}

func TestC06(t *testing.T) {
	ev := newEv(t, "C06")
	c06Ev = ev
	ev.replayTier(t)
	record := func(class string, c ExecCase, f storyFacts) {
		ev.Eval(c.Key(), f.nontrivial)
		if f.d17b {
			ev.KFCase("D17b")
		}
		if f.d9 {
			ev.KFCase("D9")
		}
		if f.open {
			ev.Label("order_open")
		} else {
			ev.Label("order_exact")
		}
		ev.Sample(class, c)
	}
	t.Run("error_positions", func(t *testing.T) {
		b := ev.enum(t)
		cs := append(append(errorPositionCases(), pgCorpusCases()...), producerCases()...)
		for i, c := range cs {
			if !mine(i) {
				continue
			}
			v, f := checkStoryFacts(c)
			record("error_positions", c, f)
			if !b.Check("c06.story", c, v) {
				return
			}
		}
		ev.Exhaustive("erroring_element_at_every_position", int64(len(cs)))
	})
	pcfg := GenCfg{MaxNodes: 12, HardErrPct: 12, ErrBias: true}
	dcfg := DocCfg{}
	ev.rapidProp(t, "random", func(rt *rapid.T) {
		c, _ := genExecCase(rt, pcfg, dcfg)
		v, f := checkStoryFacts(c)
		record("random", c, f)
		ev.Check(rt, "c06.story", c, v)
	})
}
