package checks

// Coverage-guided differential targets for the thorough tier: the fuzzer
// mutates path text (and a document), the semantic oracle sits inside.

import (
	"strings"
	"testing"
)

// FuzzModel (C01): any path the parser accepts, on any JSON document, must agree
// with the reference model (cases the model leaves open are skipped inside).
func FuzzModel(f *testing.F) {
	n := 0
	for _, c := range pgCorpusCases() {
		if n++; n%7 == 0 && len(c.Path) < 120 && len(c.Doc) < 200 {
			f.Add(c.Path, c.Doc, c.Opts.TZ)
		}
	}
	for _, c := range pairTableCases(false)[:40] {
		f.Add(c.Path, c.Doc, false)
	}
	for _, p := range concBasePool {
		f.Add(p, concDocs[0], true)
	}
	f.Fuzz(func(t *testing.T, pathText, doc string, tz bool) {
		if len(pathText) > 300 || len(doc) > 400 || strings.Contains(pathText, "keyvalue") && strings.Count(pathText, "keyvalue") > 1 {
			return
		}
		c := ExecCase{Path: pathText, Doc: doc, Opts: Opts{TZ: tz}}
		if _, err := Decode(doc, false); err != nil {
			c.Opts.UseNumber = true
			if _, err := Decode(doc, true); err != nil {
				return
			}
		}
		if v, _ := checkModelFacts(c); v != nil {
			t.Fatalf("%s", v.Msg)
		}
	})
}

// FuzzRoundTrip (C02): any accepted text prints to a text that re-parses to the same path.
func FuzzRoundTrip(f *testing.F) {
	for _, c := range nearMisses() {
		if c.MustAccept && len(c.bytes()) < 200 {
			f.Add(c.bytes())
		}
	}
	for _, p := range concBasePool {
		f.Add(p)
	}
	f.Fuzz(func(t *testing.T, text string) {
		if len(text) > 400 {
			return
		}
		c := RTCase{Text: text, Docs: []string{`{"a":[1,2,{"b":"x"}],"b":"ab"}`, `[1,"a",null,[2]]`}}
		if v, _ := checkRoundTripFacts(c); v != nil {
			t.Fatalf("%s", v.Msg)
		}
	})
}

func fuzzExecSeeds(f *testing.F) {
	n := 0
	for _, c := range pgCorpusCases() {
		if n++; n%9 == 0 && len(c.Path) < 120 && len(c.Doc) < 200 {
			f.Add(c.Path, c.Doc, c.Opts.TZ)
		}
	}
	for _, p := range concBasePool {
		f.Add(p, concDocs[0], true)
	}
	for _, c := range partialCases()[:60] {
		f.Add(c.Path, c.Doc, false)
	}
}

func fuzzExecCase(pathText, doc string, tz bool) (ExecCase, bool) {
	if len(pathText) > 300 || len(doc) > 400 {
		return ExecCase{}, false
	}
	c := ExecCase{Path: pathText, Doc: doc, Opts: Opts{TZ: tz, HasVars: true, Vars: map[string]string{"x": `[1,2,3]`, "y": `1`, "h": `1e400`}, UseNumber: true}}
	if _, err := Decode(doc, true); err != nil {
		return c, false
	}
	return c, true
}

// FuzzTotal (C05): totality, purity and error classification for any accepted path on any document.
func FuzzTotal(f *testing.F) {
	fuzzExecSeeds(f)
	f.Fuzz(func(t *testing.T, pathText, doc string, tz bool) {
		if c, ok := fuzzExecCase(pathText, doc, tz); ok {
			if v, _ := checkTotalFacts(c); v != nil {
				t.Fatalf("%s", v.Msg)
			}
		}
	})
}

// FuzzStory (C06): the five entry points agree on any accepted path and document.
func FuzzStory(f *testing.F) {
	fuzzExecSeeds(f)
	f.Fuzz(func(t *testing.T, pathText, doc string, tz bool) {
		if c, ok := fuzzExecCase(pathText, doc, tz); ok {
			if v, _ := checkStoryFacts(c); v != nil {
				t.Fatalf("%s", v.Msg)
			}
		}
	})
}

// FuzzSilent (C08): WithSilent against the verbose run on any accepted path and document.
func FuzzSilent(f *testing.F) {
	fuzzExecSeeds(f)
	f.Fuzz(func(t *testing.T, pathText, doc string, tz bool) {
		if c, ok := fuzzExecCase(pathText, doc, tz); ok {
			if v, _ := checkSilentFacts(c); v != nil {
				t.Fatalf("%s", v.Msg)
			}
		}
	})
}
