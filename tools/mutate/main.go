// Command mutate enumerates and applies small syntactic mutations of Go
// source files (development aid for measuring the sensitivity of the checks).
//
//	mutate list  <root> <file>...        prints one JSON object per mutant
//	mutate apply <root> <file> <offset> <end> <replacement>   rewrites the file in place
package main

import (
	"encoding/json"
	"fmt"
	"go/ast"
	"go/parser"
	"go/token"
	"os"
	"path/filepath"
	"strconv"
)

type Mutant struct {
	File  string `json:"file"`
	Line  int    `json:"line"`
	Func  string `json:"func"`
	Kind  string `json:"kind"`
	Start int    `json:"start"`
	End   int    `json:"end"`
	Old   string `json:"old"`
	New   string `json:"new"`
}

// identSwaps: domain-specific replacements of one identifier (or selector name) by a sibling
// of the same type: error class, result status, predicate outcome, wrap/unwrap mode.
var identSwaps = map[string][]string{
	"returnVerboseError": {"returnError"}, "returnError": {"returnVerboseError"},
	"ErrVerbose": {"ErrExecution"}, "ErrExecution": {"ErrVerbose"},
	"statusFailed": {"statusNotFound", "statusOK"}, "statusNotFound": {"statusOK", "statusFailed"}, "statusOK": {"statusNotFound"},
	"predTrue": {"predFalse", "predUnknown"}, "predFalse": {"predTrue", "predUnknown"}, "predUnknown": {"predFalse", "predTrue"},
	"autoUnwrap": {"autoWrap"}, "autoWrap": {"autoUnwrap"},
	"executeItemOptUnwrapResult": {"executeItemOptUnwrapResultSilent"}, "executeItemOptUnwrapResultSilent": {"executeItemOptUnwrapResult"},
	"UnaryPlus": {"UnaryMinus"}, "UnaryMinus": {"UnaryPlus"}, "ConstTrue": {"ConstFalse"}, "ConstFalse": {"ConstTrue"},
	"BinaryAnd": {"BinaryOr"}, "BinaryOr": {"BinaryAnd"}, "BinaryLess": {"BinaryLessOrEqual"}, "BinaryGreater": {"BinaryGreaterOrEqual"},
	"MaxInt32": {"MaxInt64"}, "MinInt32": {"MinInt64"}, "MaxInt64": {"MaxInt32"}, "MinInt64": {"MinInt32"},
	"Floor": {"Ceil"}, "Ceil": {"Floor"}, "Round": {"Trunc"}, "Trunc": {"Round"},
	"UTC": {"Local"}, "first": {"last"}, "last": {"first"}, "left": {"right"}, "right": {"left"}, "lhs": {"rhs"}, "rhs": {"lhs"},
	"indexFrom": {"indexTo"}, "indexTo": {"indexFrom"},
}

var swaps = map[token.Token][]token.Token{
	token.LSS: {token.LEQ}, token.LEQ: {token.LSS}, token.GTR: {token.GEQ}, token.GEQ: {token.GTR},
	token.EQL: {token.NEQ}, token.NEQ: {token.EQL}, token.LAND: {token.LOR}, token.LOR: {token.LAND},
	token.ADD: {token.SUB}, token.SUB: {token.ADD},
}

func main() {
	if len(os.Args) < 3 {
		fmt.Fprintln(os.Stderr, "usage: mutate list <root> <file>... | mutate apply <root> <file> <start> <end> <new>")
		os.Exit(2)
	}
	switch os.Args[1] {
	case "list":
		root := os.Args[2]
		enc := json.NewEncoder(os.Stdout)
		for _, rel := range os.Args[3:] {
			for _, m := range list(root, rel) {
				_ = enc.Encode(m)
			}
		}
	case "apply":
		root, rel := os.Args[2], os.Args[3]
		start, _ := strconv.Atoi(os.Args[4])
		end, _ := strconv.Atoi(os.Args[5])
		p := filepath.Join(root, rel)
		src, err := os.ReadFile(p)
		if err != nil {
			panic(err)
		}
		out := append(append(append([]byte{}, src[:start]...), []byte(os.Args[6])...), src[end:]...)
		if err := os.WriteFile(p, out, 0o644); err != nil {
			panic(err)
		}
	}
}

func list(root, rel string) []Mutant {
	fset := token.NewFileSet()
	p := filepath.Join(root, rel)
	src, err := os.ReadFile(p)
	if err != nil {
		panic(err)
	}
	f, err := parser.ParseFile(fset, p, src, parser.ParseComments)
	if err != nil {
		panic(err)
	}
	var out []Mutant
	off := func(pos token.Pos) int { return fset.Position(pos).Offset }
	text := func(a, b token.Pos) string { return string(src[off(a):off(b)]) }
	for _, d := range f.Decls {
		fd, ok := d.(*ast.FuncDecl)
		if !ok || fd.Body == nil {
			continue
		}
		name := fd.Name.Name
		add := func(kind string, a, b token.Pos, repl string) {
			out = append(out, Mutant{File: rel, Line: fset.Position(a).Line, Func: name, Kind: kind, Start: off(a), End: off(b), Old: text(a, b), New: repl})
		}
		ast.Inspect(fd.Body, func(n ast.Node) bool {
			switch x := n.(type) {
			case *ast.BinaryExpr:
				for _, t := range swaps[x.Op] {
					if x.Op == token.ADD || x.Op == token.SUB {
						// skip string concatenation in error messages
						if bl, ok := x.X.(*ast.BasicLit); ok && bl.Kind == token.STRING {
							continue
						}
						if bl, ok := x.Y.(*ast.BasicLit); ok && bl.Kind == token.STRING {
							continue
						}
					}
					add("op:"+x.Op.String()+"->"+t.String(), x.OpPos, x.OpPos+token.Pos(len(x.Op.String())), t.String())
				}
			case *ast.IfStmt:
				if x.Cond != nil {
					add("if:negate", x.Cond.Pos(), x.Cond.End(), "!("+text(x.Cond.Pos(), x.Cond.End())+")")
				}
			case *ast.Ident:
				for _, r := range identSwaps[x.Name] {
					add("ident:"+x.Name+"->"+r, x.Pos(), x.End(), r)
				}
				if x.Name == "true" {
					add("bool:true->false", x.Pos(), x.End(), "false")
				} else if x.Name == "false" {
					add("bool:false->true", x.Pos(), x.End(), "true")
				}
			case *ast.BasicLit:
				if x.Kind == token.INT && (x.Value == "0" || x.Value == "1") {
					add("int:"+x.Value, x.Pos(), x.End(), map[string]string{"0": "1", "1": "0"}[x.Value])
				}
			case *ast.DeferStmt:
				add("stmt:drop-defer", x.Pos(), x.End(), "")
			case *ast.BlockStmt:
				for _, st := range x.List {
					switch s := st.(type) {
					case *ast.AssignStmt:
						if s.Tok == token.ASSIGN {
							add("stmt:drop-assign", s.Pos(), s.End(), "")
						}
					case *ast.ExprStmt:
						add("stmt:drop-call", s.Pos(), s.End(), "")
					case *ast.IncDecStmt:
						add("stmt:drop-incdec", s.Pos(), s.End(), "")
					case *ast.BranchStmt:
						if s.Tok == token.BREAK {
							add("stmt:break->continue", s.Pos(), s.Pos()+5, "continue")
						} else if s.Tok == token.CONTINUE {
							add("stmt:continue->break", s.Pos(), s.Pos()+8, "break")
						}
					}
				}
			}
			return true
		})
	}
	return out
}
