module mutate

go 1.23
